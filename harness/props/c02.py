"""C02 — lazy stream with an exact, fully used prefetch window (nworkers + extracache)."""
from harness import core, pipelib
from harness.props import c01

ID = 'C02'
MODULE = 'Gpv.Props.C02'
MODULES = ['Gpv.Props.C02', 'Gpv.Props.C13Stage']
THEOREMS = core.theorems('C02', 'C13Stage')
RULE = ('demand histories (take k, pause, take more, stop) over finite and very long sources with None-producing elements; the draw '
        'counter of an instrumented source is read at every hand-over; with all completions withheld (controller process) the '
        'harness waits for quiescence and counts draws and distinct worker pids inside the user function; children of the process '
        'are scanned before the first next(). The trace must be accepted by the Lean transition system (a draw outside the window '
        'is not an enabled transition). non-trivial: window >= 2 and at least one hand-over with the source not exhausted; '
        'distinct by (config, table, demand).')
PARTIAL = ['"processed at the same time in distinct processes" is an OS fact: the model proves running = min(nworkers, unfinished) slots, '
           'the harness observes distinct pids inside the function while completions are withheld']
ASSUMPTIONS = ['quiescence is detected by 250 ms without any event (only used to strengthen the check, never to raise an alarm on a valid trace)']


def gen_cases(ctx):
    rng = ctx.rng
    cases = []
    # (a) demand histories, finite sources
    for _ in range(ctx.scale(120, 1200)):
        n = rng.choice([3, 5, 8, 13, 30])
        cfg = c01.rand_cfg(rng, parallel=rng.random() < 0.8)
        cfg['maxtasksperchild'] = None
        k = rng.randint(0, n)
        demand = ['N'] * k + rng.choice([['C'], ['N*'], ['G'], ['I', 'N', 'N', 'C']])
        forced = cfg['nworkers'] > 0 and rng.random() < 0.4 and n <= 13
        prio = list(range(n))
        rng.shuffle(prio)
        table = c01.rand_table(rng, n, zoo=False)
        prior = rng.randint(1, n) if rng.random() < 0.35 else None     # an earlier stream of the same stage
        cases.append(dict(cfg=cfg, n=n, tail=None, table=table, fkind='module', kwargs={},
                          schedule=dict(priority=prio, quiet_ms=15) if forced else None, demand=demand, label='history',
                          prior_n=prior, pre_model=(prior, sum(1 for t in table[:prior] if not (t[0] == 'n' and cfg['skipNone']))) if prior else (0, 0)))
    # (b) very long ("unbounded") source: a finite prefix needs finitely many draws
    for _ in range(ctx.scale(12, 80)):
        n = 3000
        cfg = c01.rand_cfg(rng, parallel=rng.random() < 0.8)
        cfg['maxtasksperchild'] = None
        period = [['n'] if rng.random() < 0.4 else ['u'] for _ in range(rng.randint(1, 7))]
        if all(t == ['n'] for t in period):
            period[0] = ['u']
        table = [period[i % len(period)] for i in range(n)]
        cases.append(dict(cfg=cfg, n=n, tail=None, table=table, fkind='module', kwargs={}, schedule=None,
                          demand=['N'] * rng.randint(1, 12) + ['C'], label='unbounded'))
    # (c) completions withheld: the window must fill and all workers must be busy
    for _ in range(ctx.scale(24, 160)):
        cfg = dict(nworkers=rng.choice([1, 2, 3, 4]), extracache=rng.choice([0, 1, 2, 3]), skipNone=True, maxtasksperchild=None)
        n = rng.choice([1, 2, 4, 6, 9])
        prior = rng.randint(1, n) if rng.random() < 0.3 else None
        cases.append(dict(cfg=cfg, n=n, tail=None, table=[['u']] * n, fkind='module', kwargs={},
                          schedule=dict(priority=list(range(n)), hold=True, hold_ms=250, quiet_ms=15,
                                        expect_draws=min(n, cfg['nworkers'] + cfg['extracache']), expect_busy=min(n, cfg['nworkers'])),
                          demand=['N*'], label='withheld', prior_n=prior, pre_model=(prior, prior) if prior else (0, 0)))
    # more workers than this machine has cores: the window and the number of busy processes must still be nworkers
    import os
    for extra in ([1] if ctx.quick else [1, 3]):
        nw = (os.cpu_count() or 1) + extra
        n = nw + 2
        cases.append(dict(cfg=dict(nworkers=nw, extracache=0, skipNone=True, maxtasksperchild=None), n=n, tail=None, table=[['u']] * n,
                          fkind='module', kwargs={}, schedule=dict(priority=list(range(n)), hold=True, hold_ms=600, quiet_ms=15,
                                                                   expect_draws=nw, expect_busy=nw, hold_max_ms=20000),
                          demand=['N*'], label='withheld', timeout=90))
    # a trace function is installed (debugger, coverage, profiler): parallel stays parallel
    for _ in range(2 if ctx.quick else 6):
        cfg = dict(nworkers=rng.choice([2, 3]), extracache=rng.choice([0, 1]), skipNone=True, maxtasksperchild=None)
        n = rng.choice([4, 6, 9])
        cases.append(dict(cfg=cfg, n=n, tail=None, table=[['u']] * n, fkind='module', kwargs={}, tracer_active=True,
                          schedule=dict(priority=list(range(n)), hold=True, hold_ms=250, quiet_ms=15,
                                        expect_draws=min(n, cfg['nworkers'] + cfg['extracache']), expect_busy=min(n, cfg['nworkers'])),
                          demand=['N*'], label='withheld'))
    # an element that takes seconds: the bound knows no clock — however long the consumer waits for the oldest result, nothing beyond the
    # window is drawn
    for _ in range(1 if ctx.quick else 3):
        cfg = dict(nworkers=rng.choice([1, 2, 3]), extracache=rng.choice([0, 1]), skipNone=True, maxtasksperchild=None)
        n = cfg['nworkers'] * 2 + cfg['extracache'] + 3
        cases.append(dict(cfg=cfg, n=n, tail=None, table=[['u']] * n, fkind='module', kwargs={},
                          schedule=dict(priority=list(range(n)), hold=True, hold_ms=rng.choice([2300, 2700, 3200]), quiet_ms=15,
                                        expect_draws=cfg['nworkers'] + cfg['extracache'], expect_busy=cfg['nworkers'], hold_max_ms=20000),
                          demand=['N*'], label='withheld', timeout=90))
    return cases


def element_of_read(case, reads_so_far):
    """source index of the element that produced the k-th delivered value (k = number of value reads so far)"""
    skip = case['cfg']['skipNone']
    k = reads_so_far
    cnt = 0
    for i, t in enumerate(case['table']):
        if t[0] == 'n' and skip:
            continue
        cnt += 1
        if cnt == k:
            return i
    return None


def judge(ctx, case, res, mout):
    par = case['cfg']['nworkers'] > 0
    small = {k: case.get(k) for k in ('cfg', 'n', 'tail', 'fkind', 'kwargs', 'schedule', 'demand', 'label', 'prior_n', 'pre_model')}
    small['table'] = case['table'] if case['n'] <= 40 else {'periodic_prefix': case['table'][:14], 'n': case['n']}
    pipelib.carry_flags(small, case)
    cl = case['cfg']['nworkers'] + case['cfg']['extracache']
    ctx.case((case['cfg'], small['table'], case['demand'], case.get('schedule')),
             (cl >= 2 and any(r['kind'] == 'value' and r['draws'] < case['n'] for r in res['reads'])) or case['label'] == 'withheld',
             sample=small if case['label'] != 'unbounded' else None)
    ctx.count('label:' + case['label'])
    ctx.count('mode:' + ('parallel' if par else 'serial'))
    if res.get('retried'):
        ctx.count('scenarios_rerun_after_a_timeout')
    if res.get('timeout'):
        ctx.fail('stream-deadlock', 'the stream did not finish within the time limit', small)
        return
    cr = res['created']
    if cr['draws'] != 0 or cr['src_calls'] != 0:
        ctx.fail('not-lazy-draws-before-first-next', 'creating the stream drew %d elements' % cr['src_calls'], small)
    if cr['new_children'] != 0:
        ctx.fail('not-lazy-process-before-first-next', 'creating the stream started %d processes' % cr['new_children'], small)
    ev = res['events']
    firstN = next((i for i, e in enumerate(ev) if e[0] in ('N', 'C', 'T')), len(ev))
    if not case.get('prior_n') and any(e[0] in ('P', 'D', 'S') for e in ev[:firstN]):
        ctx.fail('not-lazy-activity-before-first-next', 'pool/draw/call events before the first next()', small)
    # draw counter at every hand-over
    nv = 0
    for r in res['reads']:
        if r['kind'] != 'value':
            continue
        nv += 1
        j = element_of_read(case, nv)
        if j is None:
            break
        if par:
            if r['draws'] - (j + 1) > cl:
                ctx.fail('window-exceeded', 'at the hand-over of element %d the source had been advanced to %d: %d > window %d' % (
                    j, r['draws'], r['draws'] - (j + 1), cl), small)
                break
            want = min(case['n'], j + cl)   # full window: (j+1) delivered/discarded + cachelen-1 in flight
            if r['draws'] < want and case['label'] != 'withheld':
                # drained only when the source is exhausted
                ctx.fail('window-not-filled', 'at the hand-over of element %d only %d elements were drawn, a full window needs %d' % (
                    j, r['draws'], want), small)
                break
        else:
            if r['draws'] != j + 1:
                ctx.fail('serial-draws-ahead', 'in-process: at the hand-over of element %d the source was at %d' % (j, r['draws']), small)
                break
    # completions withheld: snapshot at quiescence
    if case['label'] == 'withheld':
        q = next((i for i, e in enumerate(ev) if e[0] == 'Q'), None)
        if q is None:
            ctx.count('withheld_no_snapshot')
        else:
            draws = sum(1 for e in ev[:q] if e[0] == 'D')   # calls of source.__next__ (the last may be the exhausted one)
            succ = min(draws, case['n'])
            inside = {}
            for t, i, p in ev[:q]:
                if t == 'S':
                    inside[i] = p
                elif t == 'F':
                    inside.pop(i, None)
            want_draws = min(case['n'], cl)
            want_busy = min(case['cfg']['nworkers'], case['n'])
            ctx.count('withheld_snapshots')
            if succ != want_draws:
                ctx.fail('window-not-exact-while-waiting', 'with all completions withheld %d elements were drawn, window is %d (n=%d)' % (
                    succ, cl, case['n']), small)
            elif len(inside) != want_busy or len(set(inside.values())) != len(inside):
                ctx.fail('workers-not-saturated', 'with all completions withheld %d elements were inside the function in %d distinct '
                         'processes; expected %d' % (len(inside), len(set(inside.values())), want_busy), small)
    # correspondence
    if par:
        st = pipelib.parse_state(mout[0])
        if st['verdict'] != 'accept':
            ctx.disagree('parallel-trace-accepted-by-transition-system', small, ' '.join(pipelib.event_tokens(ev)[:120]), mout[0][:300])
        else:
            ctx.traces_validated += 1
            if int(st['drawn']) != res['final_draws']:
                ctx.disagree('draw-counter-equals-model', small, res['final_draws'], st['drawn'])
    else:
        ctx.traces_validated += 1
        vals = [r for r in res['reads']]
        nlines = [m for m in mout]
        # one model line per N/C demand; compare draw counters after each N that produced a read
        k = 0
        for tok, ml in zip(c01.serial_demands(case, res), nlines):
            if tok == 'N' and k < len(vals):
                ms = pipelib.parse_state('x ' + ml)
                if int(ms['drawn']) != vals[k]['draws']:
                    ctx.disagree('serial-draw-counter-equals-model', small, vals[k]['draws'], ml)
                    break
                k += 1


def check(ctx):
    for c, r, m in c01.execute(gen_cases(ctx)):
        with ctx.guard(c):
            judge(ctx, c, r, m)
    startmethod_cases(ctx)
    from harness.props import multistream
    multistream.run(ctx, ctx.scale(40, 400), {'draws', 'process'}, 'multi-C02')


def startmethod_cases(ctx):
    """laziness and the draw bound do not depend on how processes are started (fork, forkserver, spawn)"""
    rng = ctx.rng
    for method in ('forkserver', 'spawn'):
        nw, ec, n = rng.choice([1, 2]), rng.choice([0, 1]), rng.choice([3, 5])
        case = dict(start_method=method, nworkers=nw, extracache=ec, n=n)
        ctx.case(('startmethod', method, nw, ec, n), True, sample=case)
        ctx.count('start_method:' + method)
        st, r = pipelib.isolated(pipelib.startmethod_probe, (method, nw, ec, {}, n), timeout=60)
        if st == 'timeout':
            st, r = pipelib.isolated(pipelib.startmethod_probe, (method, nw, ec, {}, n), timeout=60)
        if st != 'ok':
            ctx.fail('startmethod-stream-fails', 'a stream under start method %s: %s %s' % (method, st, str(r)[-300:]), case)
            continue
        if r['early_children'] or r['draws_before_first_next']:
            ctx.fail('not-lazy-process-before-first-next', 'under start method %s, before the first next(): %d new child process(es), %d elements drawn' % (
                method, r['early_children'], r['draws_before_first_next']), case)
            continue
        if r['draws_at_first_output'] > min(n, nw + ec + 1) or [o[1] for o in r['outputs']] != list(range(n)):
            ctx.fail('window-bound-exceeded', 'under start method %s: %d draws at the first output (window %d), outputs %s' % (
                method, r['draws_at_first_output'], nw + ec, r['outputs'][:6]), case)


def replay(ctx, data):
    if 'start_method' in data['case']:
        startmethod_cases(ctx)
        return
    case = data['case']
    if 'streams' in case:
        from harness.props import multistream
        multistream.replay(ctx, case)
        return
    if isinstance(case.get('table'), dict):
        pp = case['table']['periodic_prefix']
        case['table'] = [pp[i % len(pp)] for i in range(case['n'])]
    for c, r, m in c01.execute([case], workers=1):
        with ctx.guard(c):
            judge(ctx, c, r, m)


if __name__ == '__main__':
    import sys
    core.main(sys.modules[__name__])
