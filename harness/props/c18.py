"""C18 — savestream/loadstream: transparent tap and a replayable archive of every prefix."""
import gc
import io
import os
import pickle
import subprocess
import shutil
import tempfile
import numpy as np
from harness import core

ID = 'C18'
MODULE = 'Gpv.Props.C18'
THEOREMS = core.theorems('C18')
RULE = ('element sequences (None, empty and large objects, arrays, nested containers) x every stop kind (close after k >= 1, garbage '
        'collection, source raises after k, exhaustion incl. the empty stream) x every stop point x compress levels 0-9 x file names '
        'and file objects; the source is instrumented (draw counter at every hand-over, identity of handed-on elements); afterwards '
        'list(loadstream(file)) must equal the first k elements (equal after pickling) in order; the consumer-visible history is compared '
        'with the Lean savestream machine (drawn, out, number of archive members, replay). thorough adds a 1,000,001-element stream '
        '(member names stop sorting lexicographically at 10^6). non-trivial: stopped early (close/gc/source failure) after k >= 1 of '
        'n > k elements; distinct by (elements, stop kind, k, target).')
PARTIAL = ['zipfile (members listed in write order, archive readable once closed) and pickle round-trips are library behaviour: assumed, exercised']
ASSUMPTIONS = ['pickle.loads(pickle.dumps(x)) equals x up to pickling', 'zipfile lists members in the order they were written']


class Boom(Exception):
    pass


class Src:
    def __init__(self, items, fail):
        self.items, self.fail, self.i = items, fail, 0

    def __iter__(self):
        return self

    def __next__(self):
        if self.i >= len(self.items):
            if self.fail:
                # an ordinary exception, or what Ctrl-C / sys.exit() in the producer raise: the stream ends all the same
                raise {'interrupt': KeyboardInterrupt, 'exit': SystemExit}.get(self.fail, Boom)('source failed after %d' % self.i)
            raise StopIteration
        self.i += 1
        return self.items[self.i - 1]


def zoo(rng):
    return [None, 0, '', [], {}, (), b'', 1.5, 'text', [1, [2, [3]]], {'a': (1, 2)}, np.arange(5), np.array([]), np.zeros((3, 2)),
            np.arange(rng.choice([1000, 50000])).astype(float), 'x' * rng.choice([10, 100000]), (None, None), float('inf'), True, 10 ** 30,
            # arrays that are more than their numeric buffer: any special-cased array writer must keep all of this
            np.ma.masked_array([1.0, 2.0, 3.0], mask=[False, True, False]), np.array([1, 'a', None, (2, 3)], dtype=object),
            np.array([(1, 2.5), (3, 4.5)], dtype=[('a', 'i4'), ('b', 'f8')]), np.rec.array([(1, 2.0)], dtype=[('x', 'i8'), ('y', 'f4')]),
            np.arange(12.0).reshape(3, 4)[::2, ::3], np.asfortranarray(np.arange(6).reshape(2, 3)), np.float32(1.5), np.array(7),
            np.array(['ab', 'cde']), np.array([b'x'], dtype='S3'), np.array(['2020-01-01'], dtype='datetime64[D]'),
            np.arange(4).astype('>i2'), np.bool_(True), np.zeros((0, 3)), np.array([[1 + 2j]]),
            # bytes whose content happens to be a pickle (messages already serialised upstream): they are bytes, and stay bytes
            pickle.dumps({'msg': 1, 'body': [1, 2]}), b'N.', pickle.dumps(b'inner'), pickle.dumps(None, protocol=0), bytearray(b'N.'),
            # object graphs that need the pickler's memo: shared and cyclic references
            Twice(3), _cyclic()]


def sized_element(target):
    """a bytes object whose pickle has exactly `target` bytes (sizes around powers of two expose chunked writers)"""
    L = max(0, target - 20)
    for _ in range(64):
        n = len(pickle.dumps(b'x' * L))
        if n == target:
            return b'x' * L
        L += target - n
        if L < 0:
            return None
    return None


class Twice:
    """a record that refers to ONE list twice (x is y): after a trip through pickle it still does"""
    def __init__(self, k):
        self.x = [k, k + 1]
        self.y = self.x

    def __eq__(self, other):
        return type(other) is Twice and self.x == other.x and self.y == other.y and (self.x is self.y) == (other.x is other.y)

    __hash__ = None


def _cyclic():
    c = [1, 2]
    c.append(c)          # a list that contains itself: picklable, and replayed as such
    return c


def deep_equal(a, b):
    """structural equality of two values: same types all the way down, same numbers (bytes for arrays, nan = nan)"""
    if type(a) is not type(b):
        return False
    if isinstance(a, np.ma.MaskedArray):
        return a.dtype == b.dtype and a.shape == b.shape and deep_equal(np.asarray(a.data), np.asarray(b.data)) \
            and deep_equal(np.ma.getmaskarray(a), np.ma.getmaskarray(b))
    if isinstance(a, np.ndarray):
        if a.dtype != b.dtype or a.shape != b.shape:
            return False
        if a.dtype == object:
            return all(deep_equal(x, y) for x, y in zip(a.ravel().tolist(), b.ravel().tolist()))
        return np.ascontiguousarray(a).tobytes() == np.ascontiguousarray(b).tobytes()
    if isinstance(a, np.generic):
        return a.dtype == b.dtype and a.tobytes() == b.tobytes()
    if isinstance(a, (list, tuple)):
        return len(a) == len(b) and all(deep_equal(x, y) for x, y in zip(a, b))
    if isinstance(a, dict):
        return list(a) == list(b) and all(deep_equal(a[k], b[k]) for k in a)
    if isinstance(a, float):
        return a == b or (a != a and b != b)
    return a == b


def same_after_pickle(back, orig):
    """back (replayed from the archive) is what orig is after one trip through pickle"""
    try:
        if pickle.dumps(back) == pickle.dumps(orig):
            return True
        return deep_equal(pickle.loads(pickle.dumps(orig)), back)
    except Exception:  # noqa
        return False


def run_case(ctx, tmp, case_id, elems, stop, k, level, target, exc='boom', edit=False):
    cwd = os.getcwd()
    try:
        return _run_case(ctx, tmp, case_id, elems, stop, k, level, target, exc, edit)
    finally:
        os.chdir(cwd)


def _edit_in_place(g):
    """a consumer that works on the element it was handed (scales the frame, appends to the record): its business — what passed the tap is
    what the archive replays"""
    try:
        if isinstance(g, np.ndarray) and g.dtype.kind in 'if' and g.flags.writeable and g.size and not isinstance(g, np.ma.MaskedArray):
            g *= 2
            g += 1
        elif isinstance(g, list):
            g.append('edited by the consumer')
        elif isinstance(g, dict):
            g['edited'] = True
        elif isinstance(g, bytearray):
            g.extend(b'!!')
    except Exception:  # noqa
        pass


def _run_case(ctx, tmp, case_id, elems, stop, k, level, target, exc, edit=False):
    from generatorpipeline.streamfunctions import savestream, loadstream
    n = len(elems)
    fail = exc if stop == 'srcfail' else False
    src = Src(elems, fail)
    chdir_after = None
    if target == 'relname':
        # a relative file name, and a consumer that changes the working directory while the stream runs
        os.chdir(tmp)
        os.makedirs(os.path.join(tmp, 'elsewhere'), exist_ok=True)
        f = 'rel_c%d.zip' % case_id
        fobj = None
        chdir_after = max(1, (k if stop in ('close', 'gc') else n) // 2)
    elif target == 'name':
        f = os.path.join(tmp, 'c%d.zip' % case_id)
        fobj = None
    elif target == 'fileobj':
        f = open(os.path.join(tmp, 'c%d.zip' % case_id), 'w+b')
        fobj = f
    else:
        f = io.BytesIO()
        fobj = f
    if edit:
        import copy
        elems = [copy.deepcopy(e) for e in elems]
        src = Src(elems, fail)
    snaps = []
    case = dict(n=n, stop=stop, k=k, compresslevel=level, target=target, source_exception=exc if fail else None, consumer_edits_elements_in_place=edit,
                elements=[type(e).__name__ + (':%d' % e.size if isinstance(e, np.ndarray) else '') for e in elems])
    stream = savestream(src, f, compresslevel=level)
    hist = []
    if src.i != 0:
        ctx.fail('savestream-not-lazy', 'creating the stream drew %d elements' % src.i, case)
        return case, None
    got = []
    raised = None
    demands = []
    try:
        if stop in ('close', 'gc'):
            for _ in range(k):
                demands.append('N')
                got.append(next(stream))
                hist.append((src.i, len(got)))
                if edit:
                    snaps.append(pickle.loads(pickle.dumps(got[-1])))
                    _edit_in_place(got[-1])
                if chdir_after == len(got):
                    os.chdir(os.path.join(tmp, 'elsewhere'))
            if stop == 'close':
                stream.close()
            else:
                stream = None
                gc.collect()
            demands.append('C')
        else:
            while True:
                demands.append('N')
                got.append(next(stream))
                hist.append((src.i, len(got)))
                if edit:
                    snaps.append(pickle.loads(pickle.dumps(got[-1])))
                    _edit_in_place(got[-1])
                if chdir_after == len(got):
                    os.chdir(os.path.join(tmp, 'elsewhere'))
    except StopIteration:
        pass
    except (Boom, KeyboardInterrupt, SystemExit) as e:
        raised = e          # kept alive while the archive is read (a handler that logs it, pytest's excinfo, sys.last_value do the same)
    expect_k = k if stop in ('close', 'gc') else n
    # oracle: transparent, lazy tap
    if len(got) != expect_k or any(g is not e for g, e in zip(got, elems)):
        ctx.fail('savestream-not-transparent', 'handed through %d elements (identity preserved: %s), expected the first %d' % (
            len(got), all(g is e for g, e in zip(got, elems)), expect_k), case)
        return case, None
    if any(d != y for d, y in hist):
        ctx.fail('savestream-draws-ahead', 'draw counter / hand-overs: %s' % hist[:10], case)
        return case, None
    if fail and raised is None:
        ctx.fail('savestream-swallows-source-exception', 'the source exception did not reach the consumer', case)
        return case, None
    # oracle: the archive replays exactly the elements handed over
    try:
        if fobj is not None:
            fobj.seek(0)
        back = list(loadstream(os.path.join(tmp, f) if target == 'relname' else f))
    except Exception as e:  # noqa
        ctx.fail('archive-unreadable-after-stop:' + stop, 'loadstream failed after the consumer was done (%s after %d): %r' % (stop, expect_k, e), case)
        return case, None
    finally:
        if target == 'fileobj':
            fobj.close()
    if edit:
        elems = snaps            # what passed the tap, as it was when it passed
    if len(back) != expect_k or not all(same_after_pickle(a, b) for a, b in zip(back, elems)):
        ctx.fail('archive-replay-differs:' + stop, 'the archive replays %d elements, the consumer received %d (stop: %s); first difference at %s' % (
            len(back), expect_k, stop, next((i for i, (a, b) in enumerate(zip(back, elems)) if not same_after_pickle(a, b)), min(len(back), expect_k))), case)
        return case, None
    return case, dict(demands=demands, got=len(got), back=len(back), raised=raised is not None, drawn=src.i)


OTHER_STREAM = [None]


class Nudge:
    """an element whose pickling makes ANOTHER recorded stream advance by one element (its __reduce__ reads a live source that is itself
    tapped): two recordings in one process do not share anything"""
    def __init__(self, k):
        self.k = k

    def __reduce__(self):
        if OTHER_STREAM[0] is not None:
            next(OTHER_STREAM[0], None)
        return (Nudge, (self.k,))

    def __eq__(self, other):
        return type(other) is Nudge and other.k == self.k

    __hash__ = None


def nested_recording_case(ctx, tmp):
    from generatorpipeline.streamfunctions import savestream, loadstream
    for target in ('bytesio', 'name'):
        f1 = io.BytesIO() if target == 'bytesio' else os.path.join(tmp, 'nest1.zip')
        f2 = io.BytesIO() if target == 'bytesio' else os.path.join(tmp, 'nest2.zip')
        inner = ['inner-%d-%s' % (i, 'x' * 40) for i in range(4)]
        outer = ['a', Nudge(1), 'b', Nudge(2), Nudge(3)]
        case = dict(nested_recordings=True, target=target, outer=['str', 'Nudge', 'str', 'Nudge', 'Nudge'], inner=len(inner))
        ctx.case(('nested-recordings', target), True, sample=case)
        ctx.count('nested_recordings')
        OTHER_STREAM[0] = savestream(iter(inner), f2)
        try:
            got = list(savestream(iter(outer), f1))
            rest = list(OTHER_STREAM[0])
        except Exception as e:  # noqa
            ctx.fail('archive-replay-differs:nested', 'two recordings, one advancing while the other pickles an element: raised %r' % (e,), case)
            continue
        finally:
            OTHER_STREAM[0] = None
        try:
            for f in (f1, f2):
                if target == 'bytesio':
                    f.seek(0)
            back1, back2 = list(loadstream(f1)), list(loadstream(f2))
        except Exception as e:  # noqa
            ctx.fail('archive-replay-differs:nested', 'two recordings, one advancing while the other pickles an element: loading raised %r' % (e,), case)
            continue
        if back1 != outer or back2 != inner or len(rest) != 1:
            ctx.fail('archive-replay-differs:nested', 'two recordings, one advancing while the other pickles an element: the first replays %r, the second %r'
                     % ([getattr(x, 'k', x) for x in back1], [str(x)[:9] for x in back2]), case)


def reuse_and_environment_cases(ctx, tmp):
    from generatorpipeline.streamfunctions import savestream, loadstream
    rng = ctx.rng
    # (a) one file object used for two recordings in a row: the archive that is replayed is the second recording
    for kind in ('bytesio', 'fileobj'):
        n1, n2 = rng.choice([20, 40]), rng.choice([1, 3])
        first = [('first', i, 'x' * 50) for i in range(n1)]
        second = [('second', i) for i in range(n2)]
        f = io.BytesIO() if kind == 'bytesio' else open(os.path.join(tmp, 'reused.zip'), 'w+b')
        case = dict(reused_file_object=kind, first_recording=n1, second_recording=n2)
        ctx.case(('reuse', kind, n1, n2), True, sample=case)
        ctx.count('reused_file_object')
        try:
            list(savestream(iter(first), f, compresslevel=rng.randint(0, 9)))
            got = list(savestream(iter(second), f, compresslevel=rng.randint(0, 9)))
            f.seek(0)
            back = list(loadstream(f))
        except Exception as e:  # noqa
            ctx.fail('archive-unreadable-after-stop:reuse', 'a second, shorter recording into the same file object cannot be replayed: %r' % (e,), case)
            continue
        finally:
            if kind == 'fileobj':
                f.close()
        if got != second or back != second:
            ctx.fail('archive-replay-differs:reuse', 'second recording %s replays as %s' % (second, back[:5]), case)
    # (a') environment variables of build sandboxes are no business of a recording
    for val in ('0', '1', '315532799'):
        saved = os.environ.get('SOURCE_DATE_EPOCH')
        os.environ['SOURCE_DATE_EPOCH'] = val
        case = dict(environment='SOURCE_DATE_EPOCH=' + val, n=3)
        ctx.case(('env', val), True, sample=case)
        ctx.count('environment_variable')
        try:
            f = io.BytesIO()
            got = list(savestream(iter(['a', None, 3]), f, compresslevel=1))
            f.seek(0)
            back = list(loadstream(f))
            if got != ['a', None, 3] or back != got:
                ctx.fail('archive-replay-differs:environment', 'with SOURCE_DATE_EPOCH=%s the stream is %s, the replay %s' % (val, got, back), case)
        except Exception as e:  # noqa
            ctx.fail('archive-unreadable-after-stop:environment', 'with SOURCE_DATE_EPOCH=%s recording / replaying raised %r' % (val, e), case)
        finally:
            if saved is None:
                os.environ.pop('SOURCE_DATE_EPOCH', None)
            else:
                os.environ['SOURCE_DATE_EPOCH'] = saved
    # (b) the recording process runs with assertions compiled away (python -O / -OO)
    for flag in ('-O', '-OO'):
        path = os.path.join(tmp, 'opt%s.zip' % flag.strip('-'))
        elems = [None, 0, 'text', [1, 2, 3], b'', {'k': (1, 2)}]
        script = ('import sys\nsys.path.insert(0, %r)\nfrom generatorpipeline.streamfunctions import savestream\n'
                  'got = list(savestream(iter(%r), %r, compresslevel=3))\nassert_free = True\nprint(len(got))\n' % (core.REPO, elems, path))
        case = dict(recorded_by='python ' + flag, n=len(elems))
        ctx.case(('optimised', flag), True, sample=case)
        ctx.count('optimised_interpreter')
        r = subprocess.run([core.PY, flag, '-c', script], capture_output=True, text=True, timeout=120, env=dict(os.environ, PYTHONDONTWRITEBYTECODE='1'))
        if r.returncode != 0 or r.stdout.strip() != str(len(elems)):
            raise core.InfraError('recording under %s failed: %s' % (flag, (r.stdout + r.stderr)[-500:]))
        try:
            back = list(loadstream(path))
        except Exception as e:  # noqa
            ctx.fail('archive-unreadable-after-stop:optimised', 'an archive recorded under python %s cannot be replayed: %r' % (flag, e), case)
            continue
        if not (len(back) == len(elems) and all(same_after_pickle(a, b) for a, b in zip(back, elems))):
            ctx.fail('archive-replay-differs:optimised', 'an archive recorded under python %s replays as %s' % (flag, back), case)


def check(ctx):
    rng = ctx.rng
    tmp = tempfile.mkdtemp(prefix='verif_c18_')
    lines, metas = [], []
    try:
        cid = 0
        nmax = ctx.scale(6, 8)
        combos = []
        for n in range(0, nmax + 1):
            for stop in ('close', 'gc', 'srcfail', 'exhaust'):
                ks = range(1, n + 1) if stop in ('close', 'gc') else [n]
                for k in ks:
                    combos.append((n, stop, k))
        for rep in range(ctx.scale(4, 12)):
            for (n, stop, k) in combos:
                z = zoo(rng)
                elems = [rng.choice(z) for _ in range(n)]
                cid += 1
                level = rng.randint(0, 9)
                target = rng.choice(['name', 'fileobj', 'bytesio', 'relname'])
                edit = rng.random() < 0.25
                case, r = run_case(ctx, tmp, cid, elems, stop, k, level, target, exc=rng.choice(['boom', 'boom', 'interrupt', 'exit']), edit=edit)
                if edit:
                    ctx.count('consumer_edits_in_place')
                ctx.case((case['elements'], stop, k, level, target), stop != 'exhaust' and 1 <= k and (k < n or stop == 'srcfail'),
                         sample=case if n <= 3 else None)
                ctx.count('stop:' + stop)
                ctx.count('target:' + target)
                if r is not None:
                    lines.append('strm.save %d %s | %s' % (n, 'e1' if stop == 'srcfail' else '-', ' '.join(r['demands'])))
                    metas.append((case, r))
        reuse_and_environment_cases(ctx, tmp)
        nested_recording_case(ctx, tmp)
        # elements whose pickled size sits on / next to powers of two
        targets = [m * 2 ** p + d for p in (8, 10, 12, 14, 16, 17, 20) for m in (1, 3) for d in (-1, 0, 1, 2)]
        rng.shuffle(targets)
        always = [m * 2 ** p + d for p in (16, 17, 20) for m in (1, 3) for d in (0, 1)]
        for tg in ((always + [t for t in targets if t not in always][:10]) if ctx.quick else targets):
            big = sized_element(tg)
            if big is None:
                continue
            cid += 1
            elems = [None, big, b'', 'tail']
            case, r = run_case(ctx, tmp, cid, elems, rng.choice(['close', 'exhaust', 'srcfail']), 3, rng.randint(0, 9), rng.choice(['name', 'bytesio']))
            case['pickled_size_of_element_1'] = tg
            ctx.case(('sized', tg), True)
            ctx.count('sized_elements')
        # cheap version of the long-stream test: start the member numbering just below 10**6 (from outside, through the
        # module's name `enumerate`; if the implementation numbers its members differently this is simply one more stream)
        import builtins
        import generatorpipeline.streamfunctions as S
        for start in (999995, 9999990):
            had = 'enumerate' in vars(S)
            S.enumerate = lambda g, start=start: builtins.enumerate(g, start)
            try:
                f = os.path.join(tmp, 'boundary_%d.zip' % start)
                elems = list(range(14))
                got = list(S.savestream(iter(elems), f, compresslevel=1))
                back = list(S.loadstream(f))
            finally:
                if not had:
                    del S.enumerate
            ctx.case(('name-boundary', start), True, sample=dict(member_numbering_starts_at=start, n=14))
            ctx.count('name_boundary_streams')
            if got != elems or back != elems:
                ctx.fail('archive-order-depends-on-names', 'a stream whose member numbers cross 10^6 (numbering started at %d) replays as %s' % (start, back),
                         dict(member_numbering_starts_at=start, n=14))
        # more members than a plain (non-ZIP64) archive can hold: 2**16 + a few
        from generatorpipeline.streamfunctions import savestream, loadstream
        N16 = 65540
        p16 = os.path.join(tmp, 'many.zip')
        case16 = dict(n=N16, stop='exhaust', target='name', compresslevel=0)
        ctx.case(('many-members', N16), True, sample=case16)
        ctx.count('stream_beyond_65535_members')
        from harness import pipelib
        try:
            # (a few seconds on the unchanged code; speed is no property — an implementation that is merely slow is let off after three minutes)
            with pipelib.time_limit(180):
                cnt16 = sum(1 for _ in savestream(iter(range(N16)), p16, compresslevel=0))
                ok16 = cnt16 == N16 and all(x == i for i, x in enumerate(loadstream(p16)))
            why = 'handed through %d of %d' % (cnt16, N16)
        except pipelib.HarnessTimeout:
            ok16, why = True, 'abandoned'
            ctx.count('long_recording_abandoned_as_too_slow')
        except Exception as e:  # noqa
            ok16, why = False, 'raised %r' % (e,)
        if not ok16:
            ctx.fail('archive-length-limited', 'a %d-element stream: %s' % (N16, why), case16)
        os.unlink(p16) if os.path.exists(p16) else None
        if not ctx.quick:
            # names beyond data/999999 no longer sort lexicographically: order must come from the archive, not from names
            from generatorpipeline.streamfunctions import savestream, loadstream
            big = os.path.join(tmp, 'big.zip')
            N = 1000001
            cnt = 0
            for x in savestream(iter(range(N)), big, compresslevel=0):
                cnt += 1
            ok = True
            for i, x in enumerate(loadstream(big)):
                if x != i:
                    ok = False
                    break
            ctx.case(('million',), True)
            ctx.count('million_entry_stream')
            if cnt != N or not ok or i != N - 1:
                ctx.fail('archive-order-depends-on-names', 'a %d-element stream replays out of order at position %d' % (N, i), dict(million=True))
    finally:
        shutil.rmtree(tmp, ignore_errors=True)
    mout = core.run_driver(lines)
    pos = 0
    for case, r in metas:
        k = len(r['demands'])
        out = mout[pos:pos + k + 1]
        pos += k + 1
        last = dict(p.split('=', 1) for p in out[k - 1].split(' ') if '=' in p) if k else {}
        load = out[k][len('load='):]
        m_back = len([t for t in load.split(',') if t]) if load != 'unreadable' else None
        m_out = len([t for t in last.get('out', '').split(',') if t])
        m_entries = len([t for t in last.get('entries', '').split(',') if t])
        impl = dict(handed=r['got'], replayed=r['back'], drawn=r['drawn'], raised=r['raised'])
        model = dict(handed=m_out, replayed=m_back, drawn=int(last.get('drawn', 0)), raised=last.get('raised') == 'true')
        if impl != model or m_entries != m_out:
            ctx.disagree('savestream-machine-correspondence', case, impl, dict(model, entries=m_entries))


def replay(ctx, data):
    check(ctx)


if __name__ == '__main__':
    import sys
    core.main(sys.modules[__name__])
