"""C11 — accumulating never modifies or aliases caller data; reading is side-effect free."""
import random
import numpy as np
from harness import core, acclib

ID = 'C11'
MODULE = 'Gpv.Props.C11'
THEOREMS = core.theorems('C11')
RULE = ('accumulator type (Minimum, Maximum, Mean, Variance, Covariance, Running*, CDF/Quantile/Median estimators, BinSorter and '
        'DynamicBinSorter with Mean bins) x history of array and scalar observations; every argument is snapshotted byte-wise before and '
        'after every call; every ndarray reachable from the accumulator is tested with np.shares_memory against every argument; at a '
        'random later point an earlier argument is overwritten in place and the read-outs are compared with an undisturbed twin; '
        'read-outs (value, n, derived ones) are taken a random number of times at random points and the final state is compared with a '
        'twin that never read; merges: the merged-in accumulator is snapshotted before/after and must not share memory with the '
        'receiver. The ownership model (Gpv.Model.Store) is asked the same history and must predict the same two facts '
        '(caller buffer written? accumulator holds a caller buffer?). non-trivial: >= 2 array observations with a mutation of an '
        'earlier one; distinct by (kind, history, mutation point).')
PARTIAL = ['the ownership model abstracts values away; which numpy primitive allocates is numpy behaviour (assumed, exercised)']
ASSUMPTIONS = ['np.asarray aliases an ndarray, np.array copies, ufuncs without out= allocate']

KINDS = ['min', 'max', 'mean', 'var', 'cov', 'rmean', 'rvar', 'rcov', 'cdf', 'quantile', 'median', 'binsorter', 'dynbin',
         'cachemax', 'cacheacc', 'reservoir']      # the last three hold objects, not numbers: only "reading is pure" applies to them
OBJECT_KINDS = ('cachemax', 'cacheacc', 'reservoir')
STORE_KIND = {'min': 'minmax', 'max': 'minmax', 'mean': 'mean', 'rmean': 'rmean', 'var': 'var', 'rvar': 'rvar', 'cdf': 'p2',
              'quantile': 'p2', 'median': 'p2'}


def make(kind):
    A = acclib.accmod()
    if kind in acclib.KINDS:
        cls = getattr(A, acclib.KINDS[kind])
        return cls(lifetime=3) if kind in ('rmean', 'rvar', 'rcov') else cls()
    if kind == 'cdf':
        return A.CDFEstimator(4)
    if kind == 'quantile':
        return A.QuantileEstimator(0.3)
    if kind == 'median':
        return A.MedianEstimator()
    if kind == 'binsorter':
        return A.BinSorter([0.0, 1.0, 2.0], A.Mean, key=lambda o: float(np.sum(o)) % 3, datakey=lambda o: o)
    if kind == 'dynbin':
        return A.DynamicBinSorter(2, A.Mean, key=lambda o: float(np.sum(o)), datakey=lambda o: o)
    if kind == 'cachemax':
        return A.CacheMaximum(length=6, key=lambda o: o[0], time_key=lambda o: o[1])      # (key-sorted lists shorter than 6 are always valid heaps)
    if kind == 'cacheacc':
        return A.CacheAccumulator(length=3)
    if kind == 'reservoir':
        random.seed(20240611)       # the library draws from the global generator: twins see the same draws
        return A.ReservoirSampling(3)
    raise ValueError(kind)


def internals(obj, seen=None, depth=0):
    """every ndarray reachable from the accumulator's attributes"""
    seen = seen if seen is not None else set()
    out = []
    if id(obj) in seen or depth > 6:
        return out
    seen.add(id(obj))
    if isinstance(obj, np.ndarray):
        return [obj]
    if isinstance(obj, (list, tuple)):
        for x in obj:
            out += internals(x, seen, depth + 1)
    elif isinstance(obj, dict):
        for x in obj.values():
            out += internals(x, seen, depth + 1)
    elif hasattr(obj, '__dict__') and not isinstance(obj, type) and not callable(obj):
        out += internals(vars(obj), seen, depth + 1)
    return out


def readouts(kind, acc):
    r = {}
    def get(name, th):
        try:
            v = th()
        except Exception as e:  # noqa
            v = '!' + type(e).__name__
        r[name] = snapshot_value(v)
    get('n', lambda: acc.n)
    get('value', lambda: acc.value)
    for name in ('rms', 'std', 'sum', 'lifetime', 'cdf', 'quantile', 'q_actual', 'min', 'max', 'histogram'):
        if hasattr(type(acc), name):
            get(name, lambda name=name: getattr(acc, name))
    if hasattr(acc, 'mean') and hasattr(acc.mean, 'value'):
        get('mean', lambda: acc.mean.value)
    return r


def snapshot_value(v):
    if isinstance(v, np.ndarray):
        return ('nd', v.shape, v.dtype.str, v.tobytes())
    if isinstance(v, (list, tuple)):
        return tuple(snapshot_value(x) for x in v)
    if hasattr(v, 'n') and hasattr(v, 'value') and not isinstance(v, type):
        return ('acc', type(v).__name__, snapshot_value(v.n), snapshot_value(v.value))
    if isinstance(v, float) and v != v:
        return 'nan'
    return repr(v)


def gen_history(rng, kind):
    if kind in OBJECT_KINDS:
        n = rng.choice([3, 7, 11, 16])
        times = rng.sample(range(100), n)
        # heavily tied keys, arbitrary distinct times: which of two equal keys survives is decided by the time stamps only
        return [(rng.randint(0, 2), times[i], 'obs%d' % i) for i in range(n)]
    n = rng.choice([2, 3, 5, 8])
    if kind in ('binsorter', 'dynbin'):
        shape = (2,)
        arrays_only = True
    elif kind in ('cov', 'rcov'):
        shape = (2,)
        arrays_only = True
    else:
        shape = rng.choice([(), (2,), (3,), (2, 2)])
        arrays_only = False
    hist = []
    for _ in range(n):
        if shape == () or (not arrays_only and rng.random() < 0.0):
            hist.append(float(rng.randint(-9, 9)) / 2)
        else:
            a = np.array([rng.randint(-9, 9) / 2 for _ in range(int(np.prod(shape)))]).reshape(shape)
            if kind in ('cdf', 'quantile', 'median') and hist and rng.random() < 0.25:
                a = a.reshape((1,) + tuple(shape))      # same data as a one-row block: broadcasts, and stays the caller's (1, …) array
            hist.append(a)
    if rng.random() < 0.2:
        # frames as a FITS or network reader delivers them: big-endian. Same numbers; the caller's bytes and dtype are the caller's
        hist = [h.astype('>f8') if isinstance(h, np.ndarray) else h for h in hist]
    return hist


def run_history(kind, hist, mutate_at=None, mutate_which=None, reads=(), readonly_views=False):
    """returns (final read-outs, list of (arg changed?, aliases?) per step)"""
    acc = make(kind)
    bases = [h.copy() if isinstance(h, np.ndarray) else h for h in hist]
    args = list(bases)
    if readonly_views:
        # the caller hands over READ-ONLY views of buffers it goes on writing to (a frame grabber's ring buffer exposed read-only)
        for j, b in enumerate(bases):
            if isinstance(b, np.ndarray):
                args[j] = b.view()
                args[j].setflags(write=False)
    facts = []
    for i, a in enumerate(args):
        # what the caller can see of its own array: content, shape, dtype, memory layout, writeability
        sig = lambda x: (x.tobytes(), x.shape, x.strides, x.dtype.str, x.flags.writeable) if isinstance(x, np.ndarray) else None   # noqa
        before = [sig(x) for x in args]
        if mutate_at == i and mutate_which is not None and isinstance(args[mutate_which], np.ndarray):
            bases[mutate_which][...] = 1234.5         # the caller overwrites an earlier argument in place (through its own writable buffer)
            before = [sig(x) for x in args]
        if i in reads:
            for _ in range(reads.count(i)):
                readouts(kind, acc)
        acc.accumulate(a)
        after = [sig(x) for x in args]
        changed = [j for j, (b, c) in enumerate(zip(before, after)) if b != c]
        ints = internals(acc)
        alias = [j for j, x in enumerate(args[:i + 1]) if isinstance(x, np.ndarray) and any(np.shares_memory(x, y) for y in ints)]
        facts.append((changed, alias))
    return readouts(kind, acc), facts, acc


def build(kind, hist):
    """accumulate a history without ever reading a read-out"""
    acc = make(kind)
    for h in hist:
        acc.accumulate(h.copy() if isinstance(h, np.ndarray) else h)
    return acc


def check(ctx):
    rng = ctx.rng
    lines, metas = [], []
    for _ in range(ctx.scale(300, 3000)):
        kind = rng.choice(KINDS)
        hist = gen_history(rng, kind)
        n = len(hist)
        arrs = [i for i, h in enumerate(hist) if isinstance(h, np.ndarray)]
        mutate_which = rng.choice(arrs) if arrs and rng.random() < 0.8 else None
        mutate_at = rng.randint(mutate_which + 1, n) if mutate_which is not None and mutate_which + 1 <= n - 1 else None
        case = dict(kind=kind, history=[h.tolist() if isinstance(h, np.ndarray) else h for h in hist], mutate_argument=mutate_which, before_push=mutate_at)
        ctx.case((kind, case['history'], mutate_which, mutate_at), len(arrs) >= 2 and mutate_at is not None, sample=case if n <= 3 else None)
        ctx.count('kind:' + kind)
        try:
            base, facts, _ = run_history(kind, hist)
        except Exception as e:  # noqa
            ctx.fail('accumulate-raises:' + kind, 'accumulating raised %r' % (e,), case)
            continue
        changed = sorted({j for c, a in facts for j in c})
        alias = sorted({j for c, a in facts for j in a})
        if changed:
            sig = 'minmax-aliases-first-observation' if kind in ('min', 'max') else 'argument-modified:' + kind
            ctx.fail(sig, '%s modified the caller\'s argument(s) %s in place' % (kind, changed), case)
        elif alias:
            sig = 'minmax-aliases-first-observation' if kind in ('min', 'max') else 'argument-aliased:' + kind
            ctx.fail(sig, '%s keeps a reference into the caller\'s argument(s) %s' % (kind, alias), case)
        if mutate_at is not None:
            ro = rng.random() < 0.4
            if ro:
                ctx.count('readonly_views_of_writable_buffers')
                case = dict(case, arguments_are_readonly_views=True)
            mut, _, _ = run_history(kind, hist, mutate_at, mutate_which, readonly_views=ro)
            # the twin differs only by the caller's later in-place write to an argument already consumed
            if mut != base:
                keys = [k for k in base if base[k] != mut.get(k)]
                ctx.fail('caller-mutation-changes-result:' + kind, 'overwriting argument %d in place before push %d changed read-outs %s' % (
                    mutate_which, mutate_at, keys), case)
        # reads are pure
        rd = tuple(sorted(rng.choice(range(n)) for _ in range(rng.randint(1, 5))))
        withreads, _, _ = run_history(kind, hist, reads=rd)
        never_read = readouts(kind, build(kind, hist))
        if withreads != base or never_read != base:
            ctx.fail('reading-influences-accumulation:' + kind, 'reading the read-outs at steps %s changed the final state' % (rd,), case)
        acc2 = run_history(kind, hist)[2]
        if kind not in OBJECT_KINDS:
            # np.array(acc) is a COPY of the value (numpy's contract for np.array): writing into it is the caller's business
            try:
                cp = np.array(acc2)
                shared = isinstance(cp, np.ndarray) and any(np.shares_memory(cp, y) for y in internals(acc2))
                if shared or (isinstance(cp, np.ndarray) and cp.dtype != object and cp.size and not cp.flags.writeable):
                    ctx.fail('array-conversion-aliases-state:' + kind, 'np.array(accumulator) shares memory with the accumulator\'s state', case)
                elif isinstance(cp, np.ndarray) and cp.dtype != object and cp.size:
                    before_w = readouts(kind, acc2)
                    cp[...] = 77
                    if readouts(kind, acc2) != before_w:
                        ctx.fail('array-conversion-aliases-state:' + kind, 'writing into np.array(accumulator) changed the accumulator', case)
            except (TypeError, ValueError, ZeroDivisionError):
                pass            # no array form (value raises / is None): nothing to alias
        r1, r2, r3 = readouts(kind, acc2), readouts(kind, acc2), readouts(kind, acc2)
        if not (r1 == r2 == r3):
            ctx.fail('reading-not-repeatable:' + kind, 'reading twice gives different results', case)
        if kind in STORE_KIND:
            lines.append('store.hist %s %s' % (STORE_KIND[kind], ' '.join('a' if isinstance(h, np.ndarray) else 's' for h in hist)))
            metas.append((case, bool(changed), bool(alias)))
    # merges never change or alias the accumulator merged in
    for _ in range(ctx.scale(80, 800)):
        kind = rng.choice(['min', 'max', 'mean', 'var', 'cov', 'cachemax', 'cacheacc'])
        h1, h2 = gen_history(rng, kind), gen_history(rng, kind)
        if rng.random() < 0.3:
            h2 = h2[:1]             # an operand that has seen exactly one observation
        if kind in OBJECT_KINDS:
            if rng.random() < 0.5:
                h1 = h1[:2]         # a receiver that holds less than the accumulator merged into it
        else:
            shape = np.shape(h1[0])
            h2 = [np.reshape(np.resize(np.asarray(x, dtype=float), int(np.prod(shape)) if shape else 1), shape) if shape else float(np.ravel(x)[0]) for x in h2]
        if kind == 'cov':
            h2 = [np.asarray(x, dtype=float).reshape(2) for x in h2]
        a = run_history(kind, h1)[2]
        b = run_history(kind, h2)[2]
        sb = readouts(kind, b)
        ib = [x.tobytes() for x in internals(b)]
        a.accumulate(b)
        case = dict(kind=kind, merge=True, a=[np.asarray(x).tolist() if kind not in OBJECT_KINDS else list(x) for x in h1], b=[np.asarray(x).tolist() if kind not in OBJECT_KINDS else list(x) for x in h2])
        ctx.case(('merge', kind, case['a'], case['b']), True)
        ctx.count('merge:' + kind)
        if readouts(kind, b) != sb or [x.tobytes() for x in internals(b)] != ib:
            ctx.fail('merge-changes-other:' + kind, 'the merged-in accumulator changed', case)
            continue
        if any(np.shares_memory(x, y) for x in internals(a) for y in internals(b)):
            ctx.fail('merge-aliases-other:' + kind, 'after the merge the receiver shares memory with the merged-in accumulator', case)
            continue
        # merging into an EMPTY receiver as well, then using the receiver further
        for recv_hist in (h1, []):
            a2 = run_history(kind, recv_hist)[2] if recv_hist else make(kind)
            b2 = run_history(kind, h2)[2]
            sb2 = readouts(kind, b2)
            a2.accumulate(b2)
            for x in h1[:2] + h2[:1]:
                a2.accumulate(x.copy() if isinstance(x, np.ndarray) else x)
            if readouts(kind, b2) != sb2:
                ctx.fail('merge-aliases-other:' + kind, 'accumulating into the receiver after a merge (receiver %s before the merge) changed the '
                         'accumulator that had been merged in' % ('empty' if not recv_hist else 'non-empty'), case)
                break
        # reading before a merge must not influence what the merge produces
        quiet = build(kind, h1)
        peek = build(kind, h1)
        for _ in range(rng.randint(1, 3)):
            readouts(kind, peek)
        quiet.accumulate(build(kind, h2))
        peek.accumulate(build(kind, h2))
        if readouts(kind, quiet) != readouts(kind, peek):
            ctx.fail('reading-influences-accumulation:' + kind, 'reading the read-outs before a merge changed the result of the merge', case)
            continue
        sa = readouts(kind, a)
        for x in internals(b):
            if x.flags.writeable:
                x[...] = 4321.0
        if readouts(kind, a) != sa:
            ctx.fail('merge-aliases-other:' + kind, 'changing the merged-in accumulator afterwards changed the receiver', case)
    mout = core.run_driver(lines)
    for (case, changed, alias), ml in zip(metas, mout):
        want = 'callerWritten=%s aliasesCaller=%s' % (str(changed).lower(), str(alias).lower())
        if ml != want:
            ctx.disagree('ownership-model-correspondence', case, want, ml)


def replay(ctx, data):
    check(ctx)


if __name__ == '__main__':
    import sys
    core.main(sys.modules[__name__])
