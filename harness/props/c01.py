"""C01 — ordered, None-filtered map; serial = parallel = spec under every worker schedule; chains."""
import itertools
from harness import core, pipelib

ID = 'C01'
MODULE = 'Gpv.Props.C01'
MODULES = ['Gpv.Props.C01', 'Gpv.Props.C13Stage', 'Gpv.Props.C01Ship']
THEOREMS = core.theorems('C01', 'C13Stage', 'C01Ship')
RULE = ('scenario = (nworkers 0-4, extracache 0-3, skipNone, maxtasksperchild, function kind module/lambda/closure, kwargs, '
        'per-element outcome table over unique values, None and a zoo of falsy/array/hostile values); free-running and forced '
        'worker schedules (a controller process releases per-element semaphores in a prescribed priority order, bursts included); '
        'the observed event trace (next/draw/start/finish/deliver) must be accepted by the Lean transition system and the delivered '
        'values must equal the model output and the independent oracle [f(x) for x in source if kept]. '
        'non-trivial: a forced case with at least one out-of-order completion, or any case with a dropped None or a falsy/array value; '
        'distinct by (config, table, schedule).')
PARTIAL = []
ASSUMPTIONS = ['multiprocessing.Pool dispatches to idle workers and get() returns the task result (modelled, exercised for real)',
               'the worker start method is fork']
TRUSTED = ['the transition-system model of _call_parallel / _call_serial in lean/Gpv/Model/Pipeline.lean']


def rand_table(rng, n, allow_none=True, zoo=True):
    t = []
    for i in range(n):
        r = rng.random()
        if allow_none and r < 0.25:
            t.append(['n'])
        elif zoo and r < 0.5:
            t.append(['z', rng.randrange(len(pipelib.ZOO))])
        else:
            t.append(['u'])
    return t


def rand_cfg(rng, parallel=True):
    return dict(nworkers=rng.choice([1, 1, 2, 2, 3, 4]) if parallel else 0,
                extracache=rng.choice([0, 0, 1, 2, 3]),
                skipNone=rng.random() < 0.7,
                maxtasksperchild=rng.choice([None, None, 1, 2]),
                verbose=rng.random() < 0.2)    # the debugging switch must not change anything but the printing


def gen_cases(ctx):
    rng = ctx.rng
    cases = []
    # corpus: the shapes named in the property text
    cases.append(dict(cfg=dict(nworkers=2, extracache=1, skipNone=True, maxtasksperchild=None), n=6, tail=None,
                      table=[['u'], ['u'], ['n'], ['z', 0], ['u'], ['z', 4]], fkind='module', kwargs={},
                      schedule=dict(priority=[1, 0, 3, 2, 5, 4]), label='corpus'))
    cases.append(dict(cfg=dict(nworkers=3, extracache=0, skipNone=False, maxtasksperchild=1), n=7, tail=None,
                      table=[['z', 5], ['n'], ['z', 7], ['z', 6], ['n'], ['u'], ['z', 3]], fkind='lambda', kwargs={'k': 2},
                      schedule=dict(priority=[2, 1, 0, 6, 5, 4, 3], burst=[2, 1, 3]), label='corpus'))
    nfree = ctx.scale(260, 2500)
    nforced = ctx.scale(110, 900)
    nserial = ctx.scale(80, 500)
    for _ in range(nfree):
        n = rng.choice([0, 1, 2, 3, 5, 8, 13, 20])
        cases.append(dict(cfg=rand_cfg(rng), n=n, tail=None, table=rand_table(rng, n),
                          fkind=rng.choice(['module', 'lambda', 'closure']),
                          kwargs=rng.choice([{}, {}, {'a': 1}, {'scale': 2.5, 'name': 'x'}]),
                          schedule=None, label='free'))
    for _ in range(nforced):
        n = rng.choice([2, 3, 4, 5, 6, 8, 10])
        prio = list(range(n))
        rng.shuffle(prio)
        cases.append(dict(cfg=rand_cfg(rng), n=n, tail=None, table=rand_table(rng, n),
                          fkind=rng.choice(['module', 'lambda', 'closure']), kwargs=rng.choice([{}, {'a': 1}]),
                          schedule=dict(priority=prio, burst=[rng.choice([1, 1, 2, 3]) for _ in range(4)],
                                        quiet_ms=rng.choice([15, 25])), label='forced'))
    for _ in range(nserial):
        n = rng.choice([0, 1, 2, 3, 5, 8, 13])
        cases.append(dict(cfg=rand_cfg(rng, parallel=False), n=n, tail=None, table=rand_table(rng, n),
                          fkind=rng.choice(['module', 'lambda', 'closure']), kwargs=rng.choice([{}, {'a': 1}]),
                          schedule=None, label='serial'))
    if not ctx.quick:
        # every priority order for small n and windows (feasible completion orders are a subset of these)
        for n, nw, ec in [(3, 2, 0), (3, 3, 0), (4, 2, 1), (4, 3, 0), (4, 4, 0), (5, 3, 1)]:
            for prio in itertools.permutations(range(n)):
                cases.append(dict(cfg=dict(nworkers=nw, extracache=ec, skipNone=True, maxtasksperchild=None), n=n, tail=None,
                                  table=[['u'] if i % 3 else ['n'] for i in range(n)], fkind='module', kwargs={},
                                  schedule=dict(priority=list(prio), quiet_ms=15), label='enumerated'))
    # long runs of dropped results (a filter that passes a handful of thousands of elements): in-process and parallel
    for nw in (0, 2):
        n = 2600
        cases.append(dict(cfg=dict(nworkers=nw, extracache=1, skipNone=True, maxtasksperchild=None, verbose=False), n=n, tail=None,
                          table=[['u'] if i % 1300 == 1299 else ['n'] for i in range(n)], fkind='module', kwargs={}, schedule=None,
                          label='long-none-run', timeout=60))
    for c in cases:
        c['demand'] = ['N*']
        if c['label'] != 'corpus' and rng.random() < 0.3:
            c['hint'] = rng.choice(pipelib.HINTS)      # the source also has a __length_hint__, right or wrong
        if c['label'] != 'corpus' and rng.random() < 0.15:
            c['unprintable_elements'] = True           # elements whose repr()/str() raise: the stage has no business printing them
        if c['label'] != 'corpus' and not c.get('unprintable_elements') and rng.random() < 0.2:
            c['element_kind'] = rng.choice(['range', 'twins'])   # elements that are range objects / equal-but-different numbers
        if c['label'] != 'corpus' and rng.random() < 0.2:
            c['library_warnings_are_errors'] = True    # as under `python -W error`: a warning the library raises is an exception
    return cases


def out_of_order(events):
    fin = [i for t, i, p in events if t == 'F']
    return any(a > b for a, b in zip(fin, fin[1:]))




def judge(ctx, case, res, mout):
    """mout: model output lines for this case"""
    par = case['cfg']['nworkers'] > 0
    key = (case['cfg'], case['table'], case.get('schedule'), case['fkind'], case.get('kwargs'))
    small = dict(cfg=case['cfg'], n=case['n'], table=case['table'], fkind=case['fkind'], kwargs=case.get('kwargs'),
                 schedule=case.get('schedule'), tail=case.get('tail'), demand=case.get('demand'), label=case['label'])
    pipelib.carry_flags(small, case)
    if 'harness_error' in res:
        raise core.InfraError('scenario runner failed: ' + res['harness_error'])
    ooo = out_of_order(res['events'])
    interesting = any(t[0] in ('n', 'z') for t in case['table'])
    ctx.case(key, (case['label'] in ('forced', 'enumerated', 'corpus') and ooo) or interesting,
             sample=small if case['label'] in ('forced', 'free') else None)
    ctx.count('label:' + case['label'])
    ctx.count('out_of_order_completions', 1 if ooo else 0)
    ctx.count('nworkers:%d' % case['cfg']['nworkers'])
    ctx.count('fkind:' + case['fkind'])
    ctx.count('dropped_none_cases', 1 if any(t[0] == 'n' for t in case['table']) and case['cfg']['skipNone'] else 0)
    if res.get('retried'):
        ctx.count('scenarios_rerun_after_a_timeout')
    if res.get('timeout'):
        ctx.fail('stream-deadlock', 'the stream did not finish within the time limit (events so far: %s)' % (
            ' '.join(pipelib.event_tokens(res['events'])[-30:])), small)
        return
    got = pipelib.observed_obs(res)
    exp = pipelib.expected_obs(case, parallel=par)
    if any(t == 'K' for t, i, p in res['events']):
        ctx.fail('kwargs-not-forwarded', 'a per-element call received different keyword arguments', small)
    if got != exp:
        ctx.fail('stream-output-differs-from-map', 'consumer received %s, f mapped over the source gives %s' % (got, exp),
                 small, observed=got, expected=exp, trace=' '.join(pipelib.event_tokens(res['events'])))
    # correspondence with the Lean model
    if par:
        st = pipelib.parse_state(mout[0])
        if st['verdict'] != 'accept':
            ctx.disagree('parallel-trace-accepted-by-transition-system', small, ' '.join(pipelib.event_tokens(res['events'])), mout[0])
        else:
            ctx.traces_validated += 1
            if st.get('out', '').split(',') != got:
                ctx.disagree('parallel-output-equals-model', small, got, st.get('out'))
            want_pc = 'done' if exp[-1:] == ['stop'] else 'failed'
            if st['pc'] != want_pc and got == exp:
                ctx.disagree('parallel-final-state', small, want_pc, st['pc'])
    else:
        if not mout:
            ctx.disagree('serial-history', small, got, 'no model output')
            return
        ctx.traces_validated += 1
        last = pipelib.parse_state('x ' + mout[-1])
        if last.get('out', '').split(',') != got:
            ctx.disagree('serial-output-equals-model', small, got, last.get('out'))
        for r, ml in zip(res['reads'], mout):
            ms = pipelib.parse_state('x ' + ml)
            if (r['draws'], r['processed'], r['yielded']) != (int(ms['drawn']), int(ms['processed']), int(ms['yielded'])):
                ctx.disagree('serial-counters-equal-model', small, (r['draws'], r['processed'], r['yielded']), ml)
                break


# ---- chained stages --------------------------------------------------------

CHAIN = None


def chain_f(x, stage=0):
    r = CHAIN[stage][x]
    return None if r == 'n' else r


def make_stage(tab):
    """every stage function made here has the same module and qualified name"""
    def stage(x):
        r = tab[x]
        return None if r == 'n' else r
    return stage


def _run_chain(tables, cfgs, n, style):
    """runs in a forked child of its own process group (pipelib.isolated)"""
    global CHAIN
    from generatorpipeline import pipeline
    CHAIN = tables
    stream = iter(range(n))
    lams = [(lambda x, t=t: None if t[x] == 'n' else t[x]) for t in tables]
    for s in range(len(tables)):
        if style == 'module+kwargs':
            P = pipeline(cfgs[s]['nworkers'], extracache=cfgs[s]['extracache'], maxtasksperchild=cfgs[s].get('maxtasksperchild'))(chain_f)
            stream = P(stream, stage=s)
        else:
            fn = make_stage(tables[s]) if style == 'closures-of-one-factory' else lams[s]
            P = pipeline(cfgs[s]['nworkers'], extracache=cfgs[s]['extracache'], maxtasksperchild=cfgs[s].get('maxtasksperchild'))(fn)
            stream = P(stream)
    try:
        return list(stream)
    except Exception as e:  # noqa
        return 'raised %r' % (e,)


def chain_cases(ctx):
    """k stages chained; stage functions are tables int -> int | None; compared with the composed spec of the model.
    Each chain runs in its own forked process group with a time limit: a variant of the library that hangs or leaks
    processes there cannot block the check."""
    rng = ctx.rng
    lines, metas = [], []
    for _ in range(ctx.scale(60, 400)):
        k = rng.choice([2, 2, 3])
        n = rng.choice([0, 3, 6, 10])
        tables, cfgs = [], []
        for s in range(k):
            tables.append({x: ('n' if rng.random() < 0.25 else rng.randrange(n + 3)) for x in range(n + 3)})
            cfgs.append(dict(nworkers=rng.choice([0, 1, 2, 3]), extracache=rng.choice([0, 1, 2]), skipNone=True,
                             maxtasksperchild=rng.choice([None, None, 1, 2])))       # recycled workers are forked LATER than the pool
        style = rng.choice(['module+kwargs', 'closures-of-one-factory', 'lambdas-of-one-scope'])
        ctx.count('chain_style:' + style)
        case = dict(chain=[{str(a): b for a, b in t.items()} for t in tables], cfgs=cfgs, n=n, style=style)
        ctx.case(('chain', case), n > 0)
        ctx.count('label:chain')
        got = None
        for attempt in range(3):    # see execute(): CPython's rare Pool.terminate() race; only a repeatable time-out counts
            st, got = pipelib.isolated(_run_chain, (tables, cfgs, n, style), timeout=15)
            if st != 'timeout':
                break
            ctx.count('chain_rerun_after_a_timeout')
        if st == 'error':
            raise core.InfraError('chain runner failed: ' + str(got))
        exp = list(range(n))
        for s in range(k):
            exp = [tables[s][x] for x in exp if tables[s][x] != 'n']
        if st == 'timeout':
            ctx.fail('chain-deadlock', 'chained stages did not finish within 15 s (three attempts); composition gives %s' % (exp,), case)
            continue
        if got != exp:
            ctx.fail('chain-output-differs-from-composition', 'chained stages delivered %s, composition gives %s' % (got, exp), case)
        # model: compose the spec stage by stage
        cur = list(range(n))
        ok = True
        for s in range(k):
            line = 'pipe.spec 1 | - | ' + ' '.join(('n' if tables[s][x] == 'n' else 'v%d' % tables[s][x]) for x in cur)
            out = core.run_driver([line])[0]
            toks = [t for t in out.split(',') if t]
            if toks[-1:] != ['stop']:
                ok = False
                break
            cur = [int(t[1:]) for t in toks[:-1]]
        if not ok or cur != (got if isinstance(got, list) else None):
            ctx.disagree('chain-equals-composed-model-spec', case, got, cur)


def _g_keep(y):
    return None if y % 3 == 0 else y * 10


def _run_variant(kind, nworkers, extracache, skipNone, n, how):
    """runs in a forked child of its own process group: a stage that is not used the plain way"""
    import copy
    import dill
    from generatorpipeline import pipeline
    if kind == 'nested':
        # the wrapped function itself streams each row through an inner stage that keeps None
        inner = pipeline(0, skipNone=skipNone)(_g_keep)
        outer = pipeline(nworkers, extracache=extracache)(lambda x: list(inner(iter([x, x + 1, x + 2]))))
        return list(outer(iter(range(n))))
    # a copy of a configured stage is a stage with that configuration
    base = pipeline(nworkers, extracache=extracache, skipNone=skipNone)(_g_keep)
    if how == 'copy':
        P = copy.copy(base)
    elif how == 'deepcopy':
        P = copy.deepcopy(base)
    elif how == 'dill':
        P = dill.loads(dill.dumps(base))          # what a worker receives (runs in-process by design)
    else:
        import pickle
        P = pickle.loads(pickle.dumps(base))
    first = list(base(iter(range(n)))) if how in ('copy', 'deepcopy') else None     # the original is used as well
    return dict(copy=list(P(iter(range(n)))), original=first)


def _ship_attrs(nw, ec, skip, verbose, mtpc, pre, how):
    """the attributes of a stage after a trip through pickle / dill / copy (runs in a forked child)"""
    import copy
    import pickle
    import dill
    from generatorpipeline import pipeline
    P = pipeline(nw, extracache=ec, skipNone=skip, verbose=verbose, maxtasksperchild=mtpc)(_g_keep)
    P.el_processed, P.el_yielded = pre
    Q = {'copy': copy.copy, 'deepcopy': copy.deepcopy, 'pickle': lambda o: pickle.loads(pickle.dumps(o)),
         'dill': lambda o: dill.loads(dill.dumps(o))}[how](P)
    show = lambda o, a: ('-' if not hasattr(o, a) else getattr(o, a))       # noqa
    return dict(nworkers=show(Q, 'nworkers'), cachelen=show(Q, 'cachelen'), verbose=show(Q, 'verbose'), skipNone=show(Q, 'skipNone'),
                maxtasksperchild=show(Q, 'maxtasksperchild'), processed=show(Q, 'el_processed'), yielded=show(Q, 'el_yielded'),
                same_function=getattr(Q, 'func', None) is _g_keep or getattr(getattr(Q, 'func', None), '__name__', None) == '_g_keep',
                original=(P.nworkers, P.cachelen, P.verbose, P.skipNone, P.maxtasksperchild, P.el_processed, P.el_yielded))


def ship_cases(ctx):
    """what crosses a process boundary: the model's `ship` (Model/Ship.lean, theorems C01Ship.*) against the real __getstate__/__setstate__"""
    rng = ctx.rng
    lines, metas = [], []
    for _ in range(ctx.scale(10, 60)):
        nw, ec, skip, verbose = rng.choice([0, 1, 3]), rng.choice([0, 2]), rng.random() < 0.5, rng.random() < 0.5
        mtpc = rng.choice([None, 1, 5])
        pre = (rng.randint(0, 9), 0)
        pre = (pre[0], rng.randint(0, pre[0]))
        how = rng.choice(['copy', 'deepcopy', 'pickle', 'dill'])
        case = dict(shipped=how, nworkers=nw, extracache=ec, skipNone=skip, verbose=verbose, maxtasksperchild=mtpc, counters=list(pre))
        ctx.case(('ship', how, nw, ec, skip, verbose, mtpc, pre), not skip or verbose, sample=case)
        ctx.count('shipped_stage:' + how)
        st, r = pipelib.isolated(_ship_attrs, (nw, ec, skip, verbose, mtpc, pre, how), timeout=30)
        if st != 'ok':
            ctx.fail('variant-stage-raises', 'a stage cannot go through %s: %s %s' % (how, st, str(r)[-300:]), case)
            continue
        if r['skipNone'] != skip or r['verbose'] != verbose or (r['processed'], r['yielded']) != pre or not r['same_function'] \
                or r['original'] != (nw, nw + ec, verbose, skip, mtpc, pre[0], pre[1]):
            ctx.fail('shipped-stage-loses-configuration', 'after %s: %s (the stage was made with skipNone=%s verbose=%s counters=%s)' % (how, r, skip, verbose, pre), case)
            continue
        lines.append('pipe.ship %d %d %d %d %s %d %d' % (nw, ec, 1 if skip else 0, 1 if verbose else 0, '-' if mtpc is None else mtpc, pre[0], pre[1]))
        f = lambda v: '-' if v == '-' else ('None' if v is None else (str(int(v)) if not isinstance(v, bool) else str(int(v))))     # noqa
        metas.append((case, 'nworkers=%s cachelen=%s verbose=%s skipNone=%s maxtasksperchild=%s processed=%s yielded=%s' % (
            f(r['nworkers']), f(r['cachelen']), f(r['verbose']), f(r['skipNone']), f(r['maxtasksperchild']), f(r['processed']), f(r['yielded']))))
    mout = core.run_driver(lines) if lines else []
    for (case, impl), ml in zip(metas, mout):
        if impl != ml:
            ctx.disagree('shipped-stage-equals-model', case, impl, ml)


def variant_cases(ctx):
    rng = ctx.rng
    for _ in range(ctx.scale(24, 120)):
        kind = rng.choice(['nested', 'copied'])
        nw, ec, skip, n = rng.choice([0, 1, 2, 3]), rng.choice([0, 1, 2]), rng.random() < 0.5, rng.choice([0, 1, 4, 7])
        how = rng.choice(['copy', 'deepcopy', 'dill', 'pickle'])
        case = dict(variant=kind, nworkers=nw, extracache=ec, skipNone=skip, n=n, how=how if kind == 'copied' else None)
        ctx.case(('variant', kind, nw, ec, skip, n, case['how']), n >= 4 and not skip, sample=case)
        ctx.count('variant:' + kind)
        for attempt in range(3):
            st, got = pipelib.isolated(_run_variant, (kind, nw, ec, skip, n, how), timeout=30)
            if st != 'timeout':
                break
        if st == 'timeout':
            ctx.fail('chain-deadlock', 'a %s stage did not finish within 30 s (three attempts)' % kind, case)
            continue
        if st == 'error':
            ctx.fail('variant-stage-raises', 'a %s stage raised: %s' % (kind, str(got)[-300:]), case)
            continue
        keep = lambda ys: [v for v in ys if not (v is None and skip)]     # noqa
        if kind == 'nested':
            exp = [keep([_g_keep(y) for y in (x, x + 1, x + 2)]) for x in range(n)]
            if got != exp:
                ctx.fail('nested-stage-output-wrong', 'rows streamed through an inner stage (skipNone=%s) inside the workers: %s, expected %s' % (
                    skip, got, exp), case)
        else:
            exp = keep([_g_keep(y) for y in range(n)])
            if got['copy'] != exp or (got['original'] is not None and got['original'] != exp):
                ctx.fail('copied-stage-output-wrong', 'a %s of a stage with skipNone=%s delivered %s (the original %s), expected %s' % (
                    how, skip, got['copy'], got['original'], exp), case)


def serial_demands(case, res):
    """demand tokens for the serial machine, one per consumer action that produced a read / close"""
    toks = []
    for t, i, p in res['events']:
        if t == 'N':
            toks.append('N')
        elif t == 'C':
            toks.append('C')
        elif t == 'T':
            toks.append('T%d' % i)
    return toks


def execute(cases, workers=16):
    """run the scenarios on the implementation and their traces through the model: [(case, res, model lines)]"""
    results = pipelib.run_cases(cases, workers=workers)
    # CPython's Pool.terminate() has a rare race (a close with work in flight hangs about once in several thousand
    # times, independent of this library): a scenario that times out is re-run; only a repeatable timeout is reported.
    for attempt in range(2):
        again = [i for i, r in enumerate(results) if r.get('timeout') and 'harness_error' not in r]
        if not again:
            break
        again = again[:8]       # the race is rare: when many scenarios time out it is not the race, and a sample settles that
        redo = pipelib.run_cases([cases[i] for i in again], workers=min(workers, 4))
        for i, r in zip(again, redo):
            r.setdefault('notes', []).append('re-run after a timeout (attempt %d)' % (attempt + 2))
            r['retried'] = attempt + 1
            results[i] = r
    lines, spans = [], []
    for c, r in zip(cases, results):
        if 'harness_error' in r:
            raise core.InfraError('scenario runner failed: ' + r['harness_error'])
        if any('controller process ended abnormally' in x for x in r.get('notes', [])):
            raise core.InfraError('scenario controller failed: %s' % r['notes'])
        if c['cfg']['nworkers'] > 0:
            lines.append(pipelib.trace_line(c, r['events'], c.get('pre_model') or (0, 0)))
            spans.append(1)
        else:
            dem = serial_demands(c, r)
            if dem:
                pre = c.get('pre_model') or (0, 0)
                tail = '-' if c.get('tail') is None else 'e%d' % c['tail']
                lines.append('pipe.serial %d %d %d | %s | %s | %s' % (
                    1 if c['cfg']['skipNone'] else 0, pre[0], pre[1], tail,
                    ' '.join(pipelib.model_outcomes(c, parallel=False)), ' '.join(dem)))
            spans.append(len(dem))
    mout = core.run_driver(lines)
    out, pos = [], 0
    for c, r, k in zip(cases, results, spans):
        out.append((c, r, mout[pos:pos + k]))
        pos += k
    return out


def _tag_none(x, **kw):
    return ('got', x)


def _none_elements_run(nworkers, extracache, skipNone, elems):
    from generatorpipeline import pipeline
    st = pipeline(nworkers, extracache=extracache, skipNone=skipNone)(_tag_none)
    return list(st(iter(elems)))


def none_element_cases(ctx):
    """None is a source ELEMENT like any other (a gap marker, the output of an upstream stage that keeps None): f is called with it and the
    stream goes on — in-process and in workers alike"""
    rng = ctx.rng
    for nworkers in (0, 1, 2):
        elems = [rng.choice([None, None, i]) for i in range(rng.choice([4, 7]))]
        if None not in elems[:-1]:
            elems[1] = None
        cfg = dict(nworkers=nworkers, extracache=rng.choice([0, 1]), skipNone=rng.choice([True, False]))
        case = dict(none_as_source_element=True, elements=[repr(e) for e in elems], **cfg)
        ctx.case(('none-elements', nworkers, cfg['extracache'], cfg['skipNone'], tuple(repr(e) for e in elems)), True, sample=case)
        ctx.count('none_as_source_element')
        st, r = pipelib.isolated(_none_elements_run, (nworkers, cfg['extracache'], cfg['skipNone'], elems), timeout=60)
        want = [('got', e) for e in elems]
        if st != 'ok' or r != want:
            ctx.fail('none-element-ends-stream', 'source %r with nworkers=%d: the stream delivered %s, f mapped over the source gives %s' % (
                elems, nworkers, r if st == 'ok' else (st, str(r)[-200:]), want), case)


def send_consumer_cases(ctx):
    """a consumer that advances an in-process stream with send(value): the outputs are those of next() — f mapped over the source"""
    from harness.props import c10
    c10.hosted_stream_cases(ctx, only_send=True)


def check(ctx):
    none_element_cases(ctx)
    send_consumer_cases(ctx)
    for c, r, m in execute(gen_cases(ctx)):
        with ctx.guard(c):
            judge(ctx, c, r, m)
    chain_cases(ctx)
    variant_cases(ctx)
    ship_cases(ctx)
    from harness.props import multistream
    multistream.run(ctx, ctx.scale(40, 400), {'outputs'}, 'multi-C01')


def replay(ctx, data):
    case = data['case']
    if 'streams' in case:
        from harness.props import multistream
        multistream.replay(ctx, case)
        return
    if case.get('none_as_source_element'):
        none_element_cases(ctx)
        return
    if case.get('hosted_stream'):
        send_consumer_cases(ctx)
        return
    if 'chain' in case:
        chain_cases(ctx)
        return
    if 'variant' in case:
        variant_cases(ctx)
        return
    if 'shipped' in case:
        ship_cases(ctx)
        return
    for c, r, m in execute([case], workers=1):
        with ctx.guard(c):
            judge(ctx, c, r, m)


if __name__ == '__main__':
    import sys
    core.main(sys.modules[__name__])
