"""C04 — no worker process outlives its stream, whatever point the consumer stops at."""
import json
import os
import shutil
import subprocess
import tempfile
import time
from harness import core, pipelib
from harness.props import c01

ID = 'C04'
MODULE = 'Gpv.Props.C04'
MODULES = ['Gpv.Props.C04', 'Gpv.Props.C03', 'Gpv.Props.C13Stage']
THEOREMS = core.theorems('C04', 'C13Stage') + ['Gpv.C03.no_later_output']
RULE = ('stop point k in 0..n outputs x way of stopping (exhaust, close, del+gc, throw, function failure, source failure) x config; '
        'pool creation/termination is logged from outside the source (module attribute Pool wrapped), children of the process are '
        'scanned in /proc after each stop (survivors, zombies), a second pipeline is then run in the same process; plus child '
        'interpreters that end with a suspended stream (sys.exit, uncaught exception, falling off the end): exit status, wall time '
        'and liveness of the worker pids. The trace (with close/throw) must be accepted by the Lean transition system and its '
        'final pool state must match. non-trivial: k >= 1 with work in flight at the stop; distinct by (config, n, k, way).')
PARTIAL = ['that Pool.terminate() really ends the OS processes, and everything about interpreter shutdown, is runtime behaviour the '
           'model cannot exhibit: the theorems cover "every exit edge terminates the pool", the harness observes the process table']
ASSUMPTIONS = ['"shortly afterwards" = within 3 s of the stop (measured and reported)']

WAYS = ['exhaust', 'close', 'gc', 'throw', 'ffail', 'srcfail']


def gen_cases(ctx):
    rng = ctx.rng
    cases = []
    ns = [0, 1, 3, 6] if ctx.quick else [0, 1, 2, 3, 5, 8]
    for n in ns:
        for k in range(n + 1):
            for way in WAYS:
                if ctx.quick and rng.random() < 0.35:
                    continue
                cfg = dict(nworkers=rng.choice([1, 2, 3, 4]), extracache=rng.choice([0, 1, 2]), skipNone=True,
                           maxtasksperchild=rng.choice([None, None, 1, 2]), verbose=rng.random() < 0.3)
                table = [['u'] for _ in range(n)]
                tail = None
                nn = n
                if way == 'exhaust':
                    demand = ['N*', 'A']
                elif way == 'close':
                    demand = ['N'] * k + ['C', 'A']
                elif way == 'gc':
                    demand = ['N'] * k + ['G']
                elif way == 'throw':
                    demand = ['N'] * k + [['T', rng.randrange(50)], 'A']
                elif way == 'ffail':
                    if k >= n:
                        continue
                    table[k] = ['e', rng.randrange(50)]
                    demand = ['N*', 'A']
                else:
                    nn = k
                    table = table[:k]
                    tail = rng.randrange(50)
                    demand = ['N*', 'A']
                forced = rng.random() < 0.3 and nn > 0
                prio = list(range(nn))
                rng.shuffle(prio)
                cases.append(dict(cfg=cfg, n=nn, tail=tail, table=table, fkind='module', kwargs={},
                                  schedule=dict(priority=prio, quiet_ms=15) if forced else None, demand=demand,
                                  label=way, k=k, library_warnings_are_errors=rng.random() < 0.3))
    return cases


def judge(ctx, case, res, mout):
    small = {k: case[k] for k in ('cfg', 'n', 'tail', 'table', 'fkind', 'kwargs', 'schedule', 'demand', 'label', 'k')}
    pipelib.carry_flags(small, case)
    ev = res['events']
    ctx.case((case['cfg'], case['n'], case['k'], case['label'], case.get('schedule')), case['k'] >= 1 and case['n'] >= 2, sample=small)
    ctx.count('way:' + case['label'])
    if res.get('retried'):
        ctx.count('scenarios_rerun_after_a_timeout')
    if res.get('timeout'):
        ctx.fail('stream-deadlock', 'the scenario did not finish within the time limit', small)
        return
    # main stream part of the trace: up to the last consumer event before the second pipeline
    end = max([i for i, e in enumerate(ev) if e[0] in ('E', 'R', 'C', 'T', 'Y', 'y', 'N')] + [-1])
    main = ev[:end + 1]
    # X of the main stream may be logged right after the last consumer event (close/gc): take the first X after P
    np_ = sum(1 for e in main if e[0] == 'P')
    firstP = next((i for i, e in enumerate(ev) if e[0] == 'P'), None)
    advanced = any(e[0] == 'N' for e in ev) and firstP is not None and firstP <= end
    x_after = firstP is not None and any(e[0] == 'X' for e in ev[firstP:]) and \
        (next(i for i, e in enumerate(ev) if e[0] == 'X' and i > firstP) < next((i for i, e in enumerate(ev) if e[0] == 'P' and i > firstP), len(ev)))
    left = res.get('children_after')
    if left:
        ctx.fail('worker-outlives-stream:' + ('zombie' if all(st == 'Z' for p, st in left) else 'alive'),
                 'after stopping by %s at k=%d, %d child process(es) were still present after %.1fs: %s' % (
                     case['label'], case['k'], len(left), res.get('children_wait_s', -1), left), small)
    elif advanced and not x_after:
        ctx.fail('pool-not-terminated', 'a pool was created but never terminated when the stream ended by %s' % case['label'], small)
    if not any(e[0] == 'N' for e in ev) and firstP is not None and firstP <= end:
        ctx.fail('pool-before-first-next', 'a pool was created although the stream was never advanced', small)
    firstN = next((i for i, e in enumerate(ev) if e[0] == 'N'), len(ev))
    if any(e[0] == 'D' for e in ev[:firstN]):
        # a stream that is created but not advanced does nothing at all — in a chain, drawing from the source IS advancing the
        # upstream stage (and starting its processes)
        ctx.fail('source-advanced-before-first-next', 'the source was asked for an element before the consumer asked for anything', small)
    if res.get('second_ok') is False:
        ctx.fail('process-cannot-run-further-pipelines', 'a second pipeline failed after the stop: %s' % res.get('notes'), small)
    if res.get('children_after_second'):
        ctx.fail('worker-outlives-stream:second', 'children left after a second pipeline: %s' % res['children_after_second'], small)
    af = res.get('after_final', [])
    if any(a != 'stop' for a in af):
        ctx.fail('not-finished-after-stop', 'next() after the end of the stream gave %s' % af, small)
    ctx.extra['max_children_wait_s'] = max(ctx.extra.get('max_children_wait_s', 0.0), res.get('children_wait_s', 0.0) or 0.0)
    # correspondence: trace accepted; final pool state
    st = pipelib.parse_state(mout[0])
    if st['verdict'] != 'accept':
        ctx.disagree('parallel-trace-accepted-by-transition-system', small, ' '.join(pipelib.event_tokens(ev)), mout[0][:300])
        return
    ctx.traces_validated += 1
    impl_pool = 'notCreated' if not (firstP is not None and firstP <= end + 1 and any(e[0] == 'N' for e in ev)) else \
        ('terminated' if x_after else 'alive')
    if st['pool'] != impl_pool:
        ctx.disagree('final-pool-state-equals-model', small, impl_pool, st['pool'])


SCRIPT = r'''
import os, sys, json, time
sys.path.insert(0, %(repo)r)
from generatorpipeline import pipeline

@pipeline(%(nworkers)d, extracache=%(extracache)d)
def f(x):
    return x * x

def kids():
    me = os.getpid(); res = []
    for d in os.listdir('/proc'):
        if d.isdigit():
            try:
                s = open('/proc/%%s/stat' %% d).read()
            except OSError:
                continue
            fields = s[s.rfind(')') + 2:].split()
            if int(fields[1]) == me:
                res.append(int(d))
    return res

def main():
    stream = f(iter(range(%(n)d)))
    got = [next(stream) for _ in range(%(k)d)]
    print(json.dumps({'got': got, 'kids': kids()}), flush=True)
    mode = %(mode)r
    if mode == 'sysexit':
        sys.exit(3)
    if mode == 'uncaught':
        raise RuntimeError('boom')
    # falloff: just return with the stream suspended
    globals()['keep'] = stream

main()
'''


def interpreter_exit_cases(ctx):
    rng = ctx.rng
    tmp = tempfile.mkdtemp(prefix='verif_c04_')
    try:
        combos = [(m, k) for m in ('sysexit', 'uncaught', 'falloff') for k in ([1, 3] if ctx.quick else [0, 1, 2, 5])]
        procs = []
        for mode, k in combos:
            params = dict(repo=core.REPO, nworkers=rng.choice([1, 2, 3]), extracache=rng.choice([0, 2]), n=50, k=k, mode=mode)
            path = os.path.join(tmp, 'exit_%s_%d.py' % (mode, k))
            open(path, 'w').write(SCRIPT % params)
            t0 = time.time()
            p = subprocess.Popen([core.PY, path], stdout=subprocess.PIPE, stderr=subprocess.PIPE, text=True,
                                 env=dict(os.environ, PYTHONDONTWRITEBYTECODE='1'))
            procs.append((mode, k, params, p, t0))
        for mode, k, params, p, t0 in procs:
            case = dict(interpreter_exit=mode, k=k, nworkers=params['nworkers'], extracache=params['extracache'])
            ctx.case(('exit', mode, k, params['nworkers'], params['extracache']), k >= 1, sample=case)
            ctx.count('way:interpreter-' + mode)
            out = None
            for attempt in range(3):
                try:
                    out, err = p.communicate(timeout=40)
                    break
                except subprocess.TimeoutExpired:
                    # CPython's Pool.terminate() race (see c01.execute): only a repeatable hang is reported
                    p.kill()
                    p.communicate()
                    ctx.count('scenarios_rerun_after_a_timeout')
                    if attempt < 2:
                        t0 = time.time()
                        p = subprocess.Popen([core.PY, os.path.join(tmp, 'exit_%s_%d.py' % (mode, k))], stdout=subprocess.PIPE,
                                             stderr=subprocess.PIPE, text=True, env=dict(os.environ, PYTHONDONTWRITEBYTECODE='1'))
            if out is None:
                ctx.fail('interpreter-exit-hangs', 'the interpreter did not exit within 40 s with a suspended stream (%s), three attempts' % mode, case)
                continue
            wall = time.time() - t0
            want_rc = {'sysexit': 3, 'uncaught': 1, 'falloff': 0}[mode]
            try:
                info = json.loads(out.strip().splitlines()[0])
            except Exception:  # noqa
                raise core.InfraError('exit script produced no report: %r %r' % (out, err[-500:]))
            if info['got'] != [i * i for i in range(k)]:
                raise core.InfraError('exit script got %r' % (info['got'],))
            if p.returncode != want_rc:
                ctx.fail('interpreter-exit-status', 'exit status %s instead of %s (%s)' % (p.returncode, want_rc, mode), case)
            if k >= 1 and not info['kids']:
                raise core.InfraError('exit script saw no workers')
            deadline = time.time() + 10.0
            alive = info['kids']
            while alive and time.time() < deadline:
                alive = [pid for pid in alive if os.path.exists('/proc/%d' % pid)]
                if alive:
                    time.sleep(0.02)
            if alive:
                ctx.fail('worker-outlives-interpreter', 'workers %s still alive 10 s after the interpreter exited (%s)' % (alive, mode), case)
            ctx.extra['max_interpreter_exit_wall_s'] = round(max(ctx.extra.get('max_interpreter_exit_wall_s', 0.0), wall), 2)
    finally:
        shutil.rmtree(tmp, ignore_errors=True)


HISTORY_SCRIPT = r"""
import os, sys, json, time, gc
sys.path.insert(0, %(repo)r)
from generatorpipeline import pipeline

@pipeline(%(nworkers)d, extracache=%(extracache)d)
def f(x):
    return x * x

@pipeline(%(nworkers)d, extracache=%(extracache)d)
def slow(x):
    if x > 0:
        time.sleep(60)
    return x

@pipeline(%(nworkers)d, extracache=%(extracache)d)
def stubborn(x):
    # a function with a catch-all retry loop (or a slow finally): whatever is raised inside it, it carries on
    if x > 0:
        while True:
            try:
                time.sleep(60)
            except BaseException:
                pass
    return x

def kids():
    me = os.getpid(); res = []
    for d in os.listdir('/proc'):
        if d.isdigit():
            try:
                s = open('/proc/%%s/stat' %% d).read()
            except OSError:
                continue
            fields = s[s.rfind(')') + 2:].split()
            if int(fields[1]) == me:
                res.append((int(d), fields[0]))
    return res

def nfd():
    return len(os.listdir('/proc/self/fd'))

def one_stream(way, n=7):
    st = f(iter(range(n)))
    if way == 'exhaust':
        assert list(st) == [i * i for i in range(n)]
    elif way == 'close':
        next(st); st.close()
    else:
        next(st); next(st)
    del st
    gc.collect()

def settle():
    t0 = time.time()
    while kids() and time.time() - t0 < 5:
        time.sleep(0.02)
    gc.collect()

def forked_consumer(way, slow=slow):
    # the stage was made in this process (above); a forked child of the program runs a stream of it and ends it early while
    # its workers are busy
    r, w = os.pipe()
    pid = os.fork()
    if pid == 0:
        rep = {}
        try:
            os.close(r)
            st = slow(iter(range(50)))
            rep['first'] = next(st)
            time.sleep(0.3)
            rep['workers'] = len(kids())
            if way == 'close':
                st.close()
            elif way == 'throw':
                try:
                    st.throw(KeyError('stop'))
                except KeyError:
                    pass
            else:
                del st
                gc.collect()
            t0 = time.time()
            left = kids()
            while left and time.time() - t0 < 4:
                time.sleep(0.02)
                left = kids()
            rep['left'] = left
            rep['after_s'] = round(time.time() - t0, 2)
        except BaseException as e:
            rep['error'] = repr(e)
        finally:
            os.write(w, json.dumps(rep).encode())
            os._exit(0)
    os.close(w)
    import select
    data = b''
    t0 = time.time()
    while time.time() - t0 < 20:
        if select.select([r], [], [], 0.5)[0]:
            b = os.read(r, 65536)
            if not b:
                break
            data += b
    else:
        # the child is stuck in ending its stream: take it and its workers away, report that
        for k, _ in kids():
            pass
        try:
            for d in os.listdir('/proc'):
                if d.isdigit():
                    try:
                        st = open('/proc/%%s/stat' %% d).read()
                        if int(st[st.rfind(')') + 2:].split()[1]) == pid:
                            os.kill(int(d), 9)
                    except (OSError, ValueError):
                        pass
            os.kill(pid, 9)
        except OSError:
            pass
        data = json.dumps({'error': 'ending the stream did not return within 20 s'}).encode()
    os.close(r)
    os.waitpid(pid, 0)
    return json.loads(data.decode() or '{}')

class Owner:
    # the stream and its source refer to each other through their owner: dropping the owner leaves a reference CYCLE,
    # which only the cyclic collector can free
    def __init__(self):
        self.stream = f(self.src())

    def src(self):
        for i in range(50):
            yield i

def cyclic_then_next():
    gc.collect()
    gc.disable()
    o = Owner()
    next(o.stream)
    had = len(kids())
    del o                       # abandoned, not yet collected
    st = f(iter(range(7)))      # the program goes on with the next parallel stream
    assert list(st) == [i * i for i in range(7)]
    del st
    gc.enable()
    gc.collect()
    t0 = time.time()
    left = kids()
    while left and time.time() - t0 < 4:
        time.sleep(0.02)
        gc.collect()
        left = kids()
    return {'workers_of_the_abandoned_stream': had, 'left': left}

def main():
    ways = %(ways)r
    one_stream('exhaust'); one_stream('close'); settle()
    base = nfd()
    for wy in ways:
        one_stream(wy)
    settle()
    after = nfd()
    rep = {'fd_base': base, 'fd_after': after, 'streams': len(ways), 'kids_left': kids()}
    rep['cyclic'] = cyclic_then_next()
    rep['forked'] = forked_consumer(%(forkway)r)
    rep['stubborn'] = forked_consumer('close' if %(forkway)r == 'drop' else %(forkway)r, stubborn)
    print(json.dumps(rep), flush=True)

main()
"""


def process_history_cases(ctx):
    """one process runs many streams one after another (and hands a stage to a forked child): nothing of an ended stream stays behind —
    no worker, no zombie, no open descriptor — so the process can go on to run further pipelines for as long as it likes"""
    rng = ctx.rng
    tmp = tempfile.mkdtemp(prefix='verif_c04h_')
    try:
        for rep_i in range(1 if ctx.quick else 3):
            ways = [rng.choice(['exhaust', 'close', 'drop']) for _ in range(rng.choice([10, 16]))]
            params = dict(repo=core.REPO, nworkers=rng.choice([1, 2, 3]), extracache=rng.choice([0, 1]), ways=ways,
                          forkway=rng.choice(['close', 'throw', 'drop']))
            case = dict(process_history=True, nworkers=params['nworkers'], extracache=params['extracache'], ways=''.join(w[0] for w in ways),
                        forked_consumer_ends_by=params['forkway'])
            ctx.case(('history', params['nworkers'], params['extracache'], tuple(ways), params['forkway']), True, sample=case)
            ctx.count('process_histories')
            path = os.path.join(tmp, 'hist_%d.py' % rep_i)
            open(path, 'w').write(HISTORY_SCRIPT % params)
            out = None
            for attempt in range(3):
                p = subprocess.Popen([core.PY, path], stdout=subprocess.PIPE, stderr=subprocess.PIPE, text=True,
                                     env=dict(os.environ, PYTHONDONTWRITEBYTECODE='1'), start_new_session=True)
                try:
                    out, err = p.communicate(timeout=60)
                    break
                except subprocess.TimeoutExpired:
                    try:
                        os.killpg(p.pid, 9)
                    except OSError:
                        pass
                    p.communicate()
                    ctx.count('scenarios_rerun_after_a_timeout')
            if out is None:
                ctx.fail('process-history-hangs', 'a process running %d streams one after another did not finish within 60 s, three attempts' % len(ways), case)
                continue
            try:
                info = json.loads(out.strip().splitlines()[0])
            except Exception:  # noqa
                ctx.fail('process-history-fails', 'a process running %d proper streams one after another failed: %s' % (len(ways), err[-400:]), case)
                continue
            finally:
                try:
                    os.killpg(p.pid, 9)
                except OSError:
                    pass
            if info['kids_left']:
                ctx.fail('worker-outlives-stream', 'after %d ended streams the process still has children %s' % (len(ways), info['kids_left']), case)
            if info['fd_after'] > info['fd_base']:
                ctx.fail('descriptors-left-open', '%d streams, each ended properly, left %d descriptors open (%d before, %d after): the process cannot go on for ever'
                         % (len(ways), info['fd_after'] - info['fd_base'], info['fd_base'], info['fd_after']), case)
            cy = info['cyclic']
            if cy['workers_of_the_abandoned_stream'] < 1:
                raise core.InfraError('the abandoned stream had no workers: %r' % (cy,))
            if cy['left']:
                ctx.fail('worker-outlives-stream', 'a stream abandoned inside a reference cycle, another parallel stream run before the collector came: '
                         'after gc.collect() its workers %s are still there' % (cy['left'],), case)
            sb = info.get('stubborn') or {}
            if 'error' in sb or 'left' not in sb:
                ctx.fail('worker-outlives-stream', 'a stream whose function swallows every exception (a catch-all retry loop), ended with a worker inside '
                         'the function: %r' % (sb,), case)
            elif sb['left']:
                ctx.fail('worker-outlives-stream', 'a stream whose function swallows every exception, ended with a worker inside the function: %d s later '
                         'its workers %s are still there' % (sb['after_s'], sb['left']), case)
            fk = info['forked']
            if 'error' in fk or 'left' not in fk:
                ctx.fail('forked-consumer-fails', 'a forked child running a stream of an inherited stage: %r' % (fk,), case)
            elif fk.get('workers', 0) < 1:
                raise core.InfraError('forked consumer saw no workers: %r' % (fk,))
            elif fk['left']:
                ctx.fail('worker-outlives-stream', 'a forked child of the program ran a stream of a stage made in its parent and ended it (%s) after one '
                         'output with busy workers: %d s later its workers %s are still there' % (params['forkway'], fk['after_s'], fk['left']), case)
    finally:
        shutil.rmtree(tmp, ignore_errors=True)


def check(ctx):
    for c, r, m in c01.execute(gen_cases(ctx)):
        with ctx.guard(c):
            judge(ctx, c, r, m)
    interpreter_exit_cases(ctx)
    process_history_cases(ctx)
    from harness.props import multistream
    multistream.run(ctx, ctx.scale(40, 300), {'process'}, 'multi-C04', parallel=True, failures=True)


def replay(ctx, data):
    case = data['case']
    if 'streams' in case:
        from harness.props import multistream
        multistream.replay(ctx, case)
        return
    if 'interpreter_exit' in case:
        interpreter_exit_cases(ctx)
        return
    if case.get('process_history'):
        process_history_cases(ctx)
        return
    for c, r, m in c01.execute([case], workers=1):
        with ctx.guard(c):
            judge(ctx, c, r, m)


if __name__ == '__main__':
    import sys
    core.main(sys.modules[__name__])
