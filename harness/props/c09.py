"""C09 — decoration is transparent for single elements; kwargs reach every call."""
import collections.abc
import contextlib
import io
import gc
import numpy as np
from harness import core, pipelib
from harness.props import c01

ID = 'C09'
MODULE = 'Gpv.Props.C09'
THEOREMS = core.theorems('C09') + ['Gpv.C13.counters', 'Gpv.C02.lazy_init']
MODULES = ['Gpv.Props.C09', 'Gpv.Props.C13', 'Gpv.Props.C02']
RULE = ('about 45 argument kinds (numbers, str, bytes, list, tuple, range, dict, set, frozenset, 0-d to 2-d arrays, None, classes that are '
        'iterable but not iterators, a class with only __next__, generators, iter([]), file-like iterators) x keyword sets x functions '
        'that return or raise x nworkers/skipNone settings: decorated(x, **kw) vs f(x, **kw) (same value by identity or same '
        'exception), no iteration of the argument, no child process, pipe_info unchanged, name/doc kept; dispatch compared with the '
        'model\'s `call` (iterator ABC rule); plus streams with several keyword sets, in-process and in workers, where every per-element '
        'call must receive the keyword arguments unchanged. non-trivial: an iterable non-iterator argument or a non-empty keyword set; '
        'distinct by (argument kind, kwargs, function, config).')
PARTIAL = ['that the decorated object keeps the original __name__/__doc__/__wrapped__ is interpreter metadata: compared at run time, not modelled']
ASSUMPTIONS = []


class OnlyNext:
    def __next__(self):
        raise AssertionError('must not be advanced')


class IterCounting:
    def __init__(self):
        self.iters = 0

    def __iter__(self):
        self.iters += 1
        return iter([1, 2])


class ProperIterator:
    def __init__(self):
        self.i = 0

    def __iter__(self):
        return self

    def __next__(self):
        self.i += 1
        if self.i > 3:
            raise StopIteration
        return self.i


def arg_zoo():
    def gen():
        yield 1
    return [
        ('int', 7), ('zero', 0), ('float', 2.5), ('nan', float('nan')), ('complex', 1 + 2j), ('bool', False), ('none', None),
        ('str', 'abc'), ('empty-str', ''), ('bytes', b'xy'), ('bytearray', bytearray(b'q')),
        ('list', [1, 2, 3]), ('empty-list', []), ('tuple', (1, 2)), ('range', range(4)), ('dict', {'a': 1}), ('set', {1, 2}),
        ('frozenset', frozenset([3])), ('nd0', np.array(3.0)), ('nd1', np.arange(4.0)), ('nd2', np.eye(2)), ('np-scalar', np.float64(1.5)),
        ('iterable-class', IterCounting()), ('only-next', OnlyNext()), ('dict-keys', {'a': 1}.keys()), ('memoryview', memoryview(b'ab')),
        ('object', object()), ('type', int), ('function', len), ('slice', slice(1, 2)), ('ellipsis', Ellipsis),
        ('hostile', pipelib.Hostile('h')),
        ('generator', gen()), ('list-iterator', iter([])), ('range-iterator', iter(range(3))), ('map', map(abs, [1])),
        ('zip', zip([1], [2])), ('enumerate', enumerate([1])), ('proper-iterator', ProperIterator()), ('reversed', reversed([1, 2])),
        ('dict-iterator', iter({'a': 1})), ('filter', filter(None, [1])),
        # classes whose INSTANCES are iterators are not iterators themselves; neither is an object that answers every attribute
        ('class-zip', zip), ('class-map', map), ('class-enumerate', enumerate), ('class-count', __import__('itertools').count),
        ('class-proper-iterator', ProperIterator), ('answers-everything', AnswersEverything()), ('instance-dunder-next', InstanceNext()),
        ('fraction', __import__('fractions').Fraction(1, 3)), ('decimal', __import__('decimal').Decimal('1.5')), ('big-int', 2 ** 200),
        ('np-bool', np.bool_(True)), ('nd-empty', np.array([])), ('nd-size1', np.array([5])), ('exception-instance', ValueError('as a value')),
    ]


class AnswersEverything:
    """an attribute bag / proxy: hasattr(x, anything) is true — but its TYPE has no __next__, so it is not an iterator"""
    def __getattr__(self, name):
        if name.startswith('__') and name.endswith('__') and name not in ('__next__', '__iter__'):
            raise AttributeError(name)
        return lambda *a, **k: None


class InstanceNext:
    """__next__ / __iter__ only in the instance dict: the iterator protocol looks at the type"""
    def __init__(self):
        self.__dict__['__next__'] = lambda: 1
        self.__dict__['__iter__'] = lambda: self


class Boom(Exception):
    pass


def f_identity(x, **kw):
    '''doc of f_identity'''
    return (x, tuple(sorted(kw.items())))


def f_raise(x, **kw):
    '''doc of f_raise'''
    raise Boom(id(x), tuple(sorted(kw.items())))


class TwoArgExc(Exception):
    """cannot be rebuilt by pickle: __init__ needs two arguments, the base class gets one message"""
    def __init__(self, code, detail):
        super().__init__('%s: %s' % (code, detail))
        self.code, self.detail = code, detail


class HandleExc(Exception):
    """carries something that cannot be pickled at all"""
    def __init__(self, msg):
        super().__init__(msg)
        import threading
        self.handle = threading.Lock()


def f_raise_odd(x, **kw):
    '''doc of f_raise_odd'''
    if len(kw) % 2:
        raise TwoArgExc(len(kw), 'detail-%d' % id(x))
    raise HandleExc('handle-%d' % id(x))


def exc_signature(e):
    d = {k: (v if isinstance(v, (int, str, tuple)) else type(v).__name__) for k, v in vars(e).items()}
    return (type(e), e.args, str(e), tuple(sorted(d.items())), type(e.__cause__).__name__, type(e.__context__).__name__)


def element_cases(ctx):
    from generatorpipeline import pipeline
    rng = ctx.rng
    kwsets = [{}, {'a': 1}, {'scale': 2.5, 'name': 'x'}, {'arr': None}, {'verbose': 7}, {'skipNone': False, 'nworkers': 3}, {'extracache': 1, 'func': 'f'}]
    lines, metas = [], []
    for name, arg in arg_zoo():
        for rep in range(ctx.scale(2, 6)):
            kw = rng.choice(kwsets)
            nworkers = rng.choice([0, 1, 3])
            skipNone = rng.random() < 0.5
            f = rng.choice([f_identity, f_raise, f_raise_odd])
            verbose = rng.random() < 0.3
            P = pipeline(nworkers, skipNone=skipNone, extracache=rng.choice([0, 2]), verbose=verbose)(f)
            is_iter = hasattr(type(arg), '__iter__') and hasattr(type(arg), '__next__')   # the ABC rule, stated independently
            case = dict(arg_kind=name, kwargs={k: repr(v) for k, v in kw.items()}, nworkers=nworkers, skipNone=skipNone, func=f.__name__,
                        verbose=verbose)
            ctx.case((name, sorted(kw), nworkers, skipNone, f.__name__, rep), (not is_iter and isinstance(arg, collections.abc.Iterable)) or bool(kw),
                     sample=case if rep == 0 else None)
            ctx.count('argkind:' + ('iterator' if is_iter else 'element'))
            before = (P.pipe_info().processed, P.pipe_info().yielded)
            ch0 = len(pipelib.children())
            try:
                want = ('ok', f(arg, **kw))
            except (Boom, TwoArgExc, HandleExc) as e:
                want = ('exc',) + exc_signature(e)
            try:
                with pipelib.time_limit(20), contextlib.redirect_stdout(io.StringIO()):
                    got = ('ok', P(arg, **kw))
            except (Boom, TwoArgExc, HandleExc) as e:
                got = ('exc',) + exc_signature(e)
            except pipelib.HarnessTimeout as e:
                got = ('no-answer', str(e))
                pipelib.kill_children()
            except Exception as e:  # noqa
                got = ('other-exc', repr(e))
            lines.append('pipe.call ' + ('iterator' if is_iter else 'element'))
            stream_like = got[0] == 'ok' and hasattr(got[1], '__next__') and hasattr(got[1], 'send')
            metas.append((case, 'stream' if stream_like else 'direct'))
            if is_iter:
                if not stream_like:
                    ctx.fail('iterator-not-treated-as-stream', 'an iterator argument (%s) did not produce a stream: %r' % (name, got), case)
                else:
                    got[1].close()
                continue
            if stream_like:
                ctx.fail('element-treated-as-stream', 'a non-iterator argument (%s) was treated as a stream' % name, case)
                continue
            same = (got[0] == want[0] == 'ok' and got[1][0] is want[1][0] and got[1][1] == want[1][1]) or \
                   (got[0] == want[0] == 'exc' and got[1:] == want[1:])
            if not same:
                ctx.fail('element-call-not-transparent', 'decorated(%s, **%r) gave %r, the undecorated function %r' % (name, kw, got, want), case)
            if isinstance(arg, IterCounting) and arg.iters != 0:
                ctx.fail('argument-iterated', 'the iterable argument was iterated %d times' % arg.iters, case)
            if len(pipelib.children()) != ch0:
                ctx.fail('element-call-starts-process', 'a single-element call changed the number of child processes', case)
            if (P.pipe_info().processed, P.pipe_info().yielded) != before:
                ctx.fail('element-call-touches-counters', 'pipe_info changed from %s to %s' % (before, P.pipe_info()), case)
            if P.__name__ != f.__name__ or P.__doc__ != f.__doc__ or getattr(P, '__wrapped__', None) is not f:
                ctx.fail('metadata-lost', 'name/doc/__wrapped__ of the decorated function: %r %r' % (P.__name__, P.__doc__), case)
    gc.collect()
    mout = core.run_driver(lines)
    for (case, impl), ml in zip(metas, mout):
        if impl != ml:
            ctx.disagree('call-dispatch-equals-model', case, impl, ml)


def _shift(x, offset=0):
    return ('shift', x, offset)


def _wrapper_with_extra_keyword():
    import functools

    @functools.wraps(_shift)
    def wrapper(x, *, scale=1, **kw):
        r = _shift(x, **kw)
        return (r[0], r[1] * scale, r[2])
    return wrapper


class CallableObject:
    def __call__(self, x, *, weight, **kw):
        return ('obj', x, weight, tuple(sorted(kw.items())))


def _kwonly(x, *, required, other=5):
    return ('kwonly', x, required, other)


def _signature_run(which, nworkers, kw, xs):
    """runs in a forked child: stream with keyword arguments through a callable whose signature is not the plain def f(x, **kw)"""
    import functools
    from generatorpipeline import pipeline
    f = {'wraps': _wrapper_with_extra_keyword(), 'partial': functools.partial(_kwonly, other=7), 'callable-object': CallableObject(),
         'kwonly': _kwonly, 'builtin': divmod, 'lambda-defaults': (lambda x, a=1, *rest, **kw: (x, a, rest, tuple(sorted(kw.items()))))}[which]
    P = pipeline(nworkers)(f)
    want = []
    for x in xs:
        try:
            want.append(('ok', f(x, **kw)))
        except Exception as e:  # noqa
            want.append(('exc', type(e).__name__))
            break
    got = []
    try:
        for r in P(iter(xs), **kw):
            got.append(('ok', r))
    except Exception as e:  # noqa
        got.append(('exc', type(e).__name__))
    one = None
    try:
        one = ('ok', P(xs[0], **kw))
    except Exception as e:  # noqa
        one = ('exc', type(e).__name__)
    return dict(want=want, got=got, one=one)


def signature_cases(ctx):
    """the keyword arguments of a stream call go to every per-element call exactly as given — whatever the callable's signature looks
    like from outside (functools.wraps, partial, callable objects, keyword-only parameters, builtins without a signature)"""
    rng = ctx.rng
    plans = [('wraps', {'scale': 3, 'offset': 10}), ('wraps', {'offset': 2}), ('partial', {'required': 1}), ('partial', {'required': 1, 'other': 9}),
             ('callable-object', {'weight': 2, 'extra': 'e'}), ('kwonly', {'required': 'r'}), ('kwonly', {}), ('kwonly', {'unknown': 1, 'required': 0}),
             ('lambda-defaults', {'a': 5, 'zz': 1}), ('builtin', {})]
    for which, kw in plans:
        nworkers = rng.choice([0, 0, 2])
        xs = [(7, 2)] if which == 'builtin' else [1, 2, 3]
        if which == 'builtin':
            continue        # divmod takes two positionals: not a one-argument function, kept out
        case = dict(signature=which, kwargs={k: repr(v) for k, v in kw.items()}, nworkers=nworkers)
        ctx.case(('signature', which, sorted(kw), nworkers), bool(kw), sample=case)
        ctx.count('signature:' + which)
        st, r = pipelib.isolated(_signature_run, (which, nworkers, kw, xs), timeout=40)
        if st == 'timeout':
            st, r = pipelib.isolated(_signature_run, (which, nworkers, kw, xs), timeout=40)
        if st != 'ok':
            ctx.fail('signature-case-fails', 'stream through a %s callable: %s %s' % (which, st, str(r)[-300:]), case)
            continue
        if r['got'] != r['want']:
            ctx.fail('kwargs-not-forwarded', 'stream through a %s callable with %r: got %s, the undecorated calls give %s' % (which, kw, r['got'], r['want']), case)
        elif r['one'] != r['want'][0]:
            ctx.fail('element-call-not-transparent', 'decorated(x, **%r) on a %s callable gave %s, undecorated %s' % (kw, which, r['one'], r['want'][0]), case)


def startmethod_kwargs_cases(ctx):
    """keyword arguments reach every per-element call also when the workers are not forked (forkserver, spawn): they travel with the task"""
    rng = ctx.rng
    for method in ('forkserver', 'spawn'):
        nw, n = rng.choice([1, 2]), rng.choice([2, 4])
        kw = rng.choice([{'a': 1}, {'scale': 2.5, 'name': 'x'}, {'verbose': 3}])
        case = dict(start_method=method, nworkers=nw, n=n, kwargs={k: repr(v) for k, v in kw.items()})
        ctx.case(('startmethod-kwargs', method, nw, n, sorted(kw)), True, sample=case)
        ctx.count('start_method:' + method)
        st, r = pipelib.isolated(pipelib.startmethod_probe, (method, nw, 1, kw, n), timeout=60)
        if st == 'timeout':
            st, r = pipelib.isolated(pipelib.startmethod_probe, (method, nw, 1, kw, n), timeout=60)
        if st != 'ok':
            ctx.fail('startmethod-stream-fails', 'a stream with keyword arguments under start method %s: %s %s' % (method, st, str(r)[-300:]), case)
            continue
        want = [('sm', i, tuple(sorted(kw.items()))) for i in range(n)]
        if r['outputs'] != want:
            ctx.fail('kwargs-not-forwarded', 'under start method %s the per-element calls saw %s, expected %s' % (method, r['outputs'][:4], want[:4]), case)


_IDENTITY_LOG = []


def _f_identity_kw(x, *, sink, token, lock, table):
    with lock:
        sink.append(x)
        table[x] = len(sink)
    _IDENTITY_LOG.append((id(sink), id(token), id(lock), id(table)))
    return x * 2


def _identity_run(skipNone, n, grow):
    """runs in a forked child: in-process stream whose keyword values are the caller's own objects"""
    import threading
    import generatorpipeline as gp
    out = {}
    for which in ('plain', 'stream'):
        del _IDENTITY_LOG[:]
        sink, token, lock, table = [], object(), threading.Lock(), {}
        kw = dict(sink=sink, token=token, lock=lock, table=table)
        seen_by_caller = []
        try:
            if which == 'plain':
                res = []
                for el in iter(range(n)):
                    res.append(_f_identity_kw(el, **kw))
                    seen_by_caller.append(len(sink))
                    if grow:
                        sink.append('caller')
            else:
                g = gp.pipeline(0, skipNone=skipNone)(_f_identity_kw)
                res = []
                for v in g(iter(range(n)), **kw):
                    res.append(v)
                    seen_by_caller.append(len(sink))
                    if grow:
                        sink.append('caller')
            ids = set(_IDENTITY_LOG)
            out[which] = dict(results=res, sink=list(sink), table=dict(table), seen=seen_by_caller,
                              same_objects=(ids == {(id(sink), id(token), id(lock), id(table))}) if n else True)
        except Exception as e:  # noqa
            out[which] = dict(error='%s: %s' % (type(e).__name__, e))
    return out


def identity_kwargs_cases(ctx):
    """in-process, 'passed unchanged' is literal: each per-element call receives the caller's own keyword objects (a list it fills, a lock, a token), as the plain loop does"""
    rng = ctx.rng
    for _ in range(3):
        skipNone, n, grow = rng.choice([True, False]), rng.choice([1, 3, 6]), rng.choice([True, False])
        case = dict(identity_kwargs=True, nworkers=0, skipNone=skipNone, n=n, caller_appends_between_outputs=grow)
        ctx.case(('identity-kwargs', skipNone, n, grow), True, sample=case)
        ctx.count('identity_kwargs')
        st, r = pipelib.isolated(_identity_run, (skipNone, n, grow), timeout=60)
        if st != 'ok':
            ctx.fail('kwargs-identity-run-fails', 'in-process stream with the caller\'s objects as keyword values: %s %s' % (st, str(r)[-300:]), case)
            continue
        if r['stream'] != r['plain']:
            ctx.fail('kwargs-not-the-callers-objects', 'in-process stream with a list, a token, a lock and a dict as keyword values: %r; the plain loop over the undecorated function: %r'
                     % (r['stream'], r['plain']), case)


def _line_f(line, **kw):
    return ('line', line, tuple(kw.items()))


def _io_run(nworkers, kind, text, kw):
    import io
    from generatorpipeline import pipeline
    mk = (lambda: io.StringIO(text)) if kind == 'StringIO' else (lambda: io.BytesIO(text.encode()))
    want = [_line_f(line, **kw) for line in mk()]
    st = pipeline(nworkers)(_line_f)
    src = mk()
    stream = st(src, **kw)
    lazy = src.tell() == 0
    import collections.abc
    is_stream = isinstance(stream, collections.abc.Iterator)
    got = list(stream) if is_stream else repr(stream)[:80]
    return dict(want=want, got=got, lazy=lazy, is_stream=is_stream)


def io_source_cases(ctx):
    """an open file, a StringIO, a BytesIO are iterators (of lines): called with one, a stage returns the stream of f(line), like for any
    other iterator"""
    rng = ctx.rng
    for kind in ('StringIO', 'BytesIO'):
        for nworkers in (0, rng.choice([1, 2])):
            text = ''.join('row %d\n' % i for i in range(rng.choice([1, 3, 5])))
            kw = rng.choice([{}, {'sep': ','}])
            case = dict(io_source=kind, nworkers=nworkers, lines=text.count('\n'), kwargs={k: repr(v) for k, v in kw.items()})
            ctx.case(('io-source', kind, nworkers, text, sorted(kw)), True, sample=case)
            ctx.count('io_sources')
            st, r = pipelib.isolated(_io_run, (nworkers, kind, text, kw), timeout=60)
            if st != 'ok':
                ctx.fail('io-source-run-fails', 'a stage called with an io.%s: %s %s' % (kind, st, str(r)[-300:]), case)
            elif not r['is_stream'] or r['got'] != r['want'] or not r['lazy']:
                ctx.fail('io-source-not-a-stream', 'a stage called with an io.%s (an iterator of lines) returned %s (read something at creation: %s); '
                         'f over the lines gives %s' % (kind, r['got'], not r['lazy'], r['want']), case)


def kwargs_streams(ctx):
    rng = ctx.rng
    cases = []
    kwsets = [{'a': 1}, {'scale': 2.5, 'name': 'x'}, {'k': (1, 2), 'flag': False}, {}]
    for _ in range(ctx.scale(50, 400)):
        n = rng.choice([1, 3, 6, 10])
        cfg = c01.rand_cfg(rng, parallel=rng.random() < 0.7)
        cases.append(dict(cfg=cfg, n=n, tail=None, table=c01.rand_table(rng, n, zoo=False), fkind=rng.choice(['module', 'lambda', 'closure']),
                          kwargs=rng.choice(kwsets), schedule=None, demand=['N*'], label='kwargs',
                          hint=rng.choice([None, None] + pipelib.HINTS)))
    for c, r, m in c01.execute(cases):
        with ctx.guard(c):
            c01.judge(ctx, c, r, m)
        ctx.count('kwargs_streams')


def f_kw(x, **kw):
    return (x, tuple(sorted(kw.items())))


def _interleaved(nworkers, extracache, kwa, kwb, n, plan, plain_at):
    """two streams of ONE decorated function with different keyword sets, consumed interleaved, with plain
    single-element calls in between; returns the list of (tag, value) observations"""
    from generatorpipeline import pipeline
    P = pipeline(nworkers, extracache=extracache)(f_kw)
    ga = P(iter(range(n)), **kwa)
    gb = P(iter(range(100, 100 + n)), **kwb)
    obs = []
    for step, who in enumerate(plan):
        if step in plain_at:
            obs.append(('plain', P(-1)))
            obs.append(('plainkw', P(-2, z=9)))
        g = ga if who == 'a' else gb
        try:
            obs.append((who, next(g)))
        except StopIteration:
            obs.append((who, 'stop'))
    obs.append(('info', (P.pipe_info().processed, P.pipe_info().yielded)))
    ga.close()
    gb.close()
    return obs


def interleaved_cases(ctx):
    rng = ctx.rng
    kwsets = [{}, {'a': 1}, {'b': 2, 'c': 'x'}, {'a': 5}]
    for _ in range(ctx.scale(24, 200)):
        nworkers = rng.choice([0, 1, 2, 3])
        extracache = rng.choice([0, 1, 2])
        kwa, kwb = rng.sample(kwsets, 2)
        n = rng.choice([2, 4, 7])
        plan = [rng.choice('ab') for _ in range(rng.randint(2, 2 * n + 2))]
        plain_at = set(rng.sample(range(len(plan)), min(len(plan), rng.choice([0, 1, 2]))))
        case = dict(interleaved=True, nworkers=nworkers, extracache=extracache, kwargs_a={k: repr(v) for k, v in kwa.items()},
                    kwargs_b={k: repr(v) for k, v in kwb.items()}, n=n, plan=''.join(plan), plain_calls_before_steps=sorted(plain_at))
        ctx.case(('interleaved', nworkers, extracache, sorted(kwa), sorted(kwb), n, ''.join(plan), tuple(sorted(plain_at))), True,
                 sample=case if len(plan) <= 6 else None)
        ctx.count('interleaved_streams')
        st, obs = pipelib.isolated(_interleaved, (nworkers, extracache, kwa, kwb, n, plan, plain_at), timeout=60)
        if st != 'ok':
            ctx.fail('interleaved-streams-' + st, 'two interleaved streams of one stage did not finish: %s' % (obs,), case)
            continue
        ia = ib = 0
        taken = 0
        ok = True
        for tag, v in obs:
            if tag == 'plain':
                want = (-1, ())
            elif tag == 'plainkw':
                want = (-2, (('z', 9),))
            elif tag == 'info':
                continue
            elif tag == 'a':
                want = (ia, tuple(sorted(kwa.items()))) if ia < n else 'stop'
                ia += 1
            else:
                want = (100 + ib, tuple(sorted(kwb.items()))) if ib < n else 'stop'
                ib += 1
            if v != want:
                sig = 'kwargs-leak-between-calls' if (isinstance(v, tuple) and isinstance(want, tuple) and v[0] == want[0]) else 'interleaved-streams-wrong-value'
                ctx.fail(sig, 'step %r delivered %r, expected %r (keyword arguments given once per call must reach exactly that call\'s elements)' % (
                    tag, v, want), case)
                ok = False
                break


def check(ctx):
    element_cases(ctx)
    kwargs_streams(ctx)
    interleaved_cases(ctx)
    signature_cases(ctx)
    startmethod_kwargs_cases(ctx)
    identity_kwargs_cases(ctx)
    io_source_cases(ctx)


def replay(ctx, data):
    case = data['case']
    if case.get('interleaved'):
        interleaved_cases(ctx)
    elif 'signature' in case:
        signature_cases(ctx)
    elif 'start_method' in case:
        startmethod_kwargs_cases(ctx)
    elif case.get('identity_kwargs'):
        identity_kwargs_cases(ctx)
    elif case.get('io_source'):
        io_source_cases(ctx)
    elif 'arg_kind' in case:
        element_cases(ctx)
    else:
        for c, r, m in c01.execute([case], workers=1):
            with ctx.guard(c):
                c01.judge(ctx, c, r, m)


if __name__ == '__main__':
    import sys
    core.main(sys.modules[__name__])
