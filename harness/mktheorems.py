"""(development tool) rebuild harness/theorems.json — the committed registry of property theorems — from lean/Gpv/Props/*.lean.
The checks read the registry, never the Lean sources: a theorem that disappears makes the axiom audit fail (exit 2)."""
import json, os, re
V = os.path.dirname(os.path.dirname(os.path.abspath(__file__)))
reg = {}
for fn in sorted(os.listdir(os.path.join(V, 'lean/Gpv/Props'))):
    if not fn.endswith('.lean'):
        continue
    pid = fn[:-5]
    src = open(os.path.join(V, 'lean/Gpv/Props', fn)).read()
    ns = re.search(r'^namespace (\S+)', src, re.M).group(1)
    names = re.findall(r'^theorem ([A-Za-z0-9_.\']+)', src, re.M)
    reg[pid] = [ns + '.' + n for n in names]
json.dump(reg, open(os.path.join(V, 'harness/theorems.json'), 'w'), indent=1)
print({k: len(v) for k, v in reg.items()})
