#!/usr/bin/env python3
"""import_seed.py <Cxx> : copy /tmp/seed_<Cxx>_out/{patch,demo,meta}{1,2} into /verif/seeded/<Cxx>-<i>/ and try them"""
import json, os, shutil, subprocess, sys
V = os.path.dirname(os.path.dirname(os.path.abspath(__file__)))
pid = sys.argv[1]
rnd = 8 if '--round8' in sys.argv else 7 if '--round7' in sys.argv else 6 if '--round6' in sys.argv else 5 if '--round5' in sys.argv else 4 if '--round4' in sys.argv else (3 if '--round3' in sys.argv else (2 if '--round2' in sys.argv else 1))
src = {1: '/tmp/seed_%s_out', 2: '/tmp/seed2_%s_out', 3: '/tmp/seed3_%s_out', 4: '/tmp/seed4_%s_out', 5: '/tmp/seed5_%s_out', 6: '/tmp/seed6_%s_out', 7: '/tmp/seed7_%s_out', 8: '/tmp/seed8_%s_out'}[rnd] % pid
for i in (1, 2):
    if not os.path.exists(os.path.join(src, 'patch%d.diff' % i)):
        continue
    d = os.path.join(V, 'seeded', '%s-%d' % (pid, i + 2 * (rnd - 1)))
    os.makedirs(d, exist_ok=True)
    shutil.copy(os.path.join(src, 'patch%d.diff' % i), os.path.join(d, 'patch.diff'))
    shutil.copy(os.path.join(src, 'demo%d.py' % i), os.path.join(d, 'demo.py'))
    try:
        meta = json.load(open(os.path.join(src, 'meta%d.json' % i)))
    except Exception:
        meta = {}
    meta['property'] = pid
    meta['round'] = rnd
    json.dump(meta, open(os.path.join(d, 'meta.json'), 'w'), indent=1)
    r = subprocess.run([sys.executable, os.path.join(V, 'tools', 'try_seed.py'), d] + [a for a in sys.argv[2:] if a not in ('--round2', '--round3', '--round4', '--round5', '--round6', '--round7', '--round8')], capture_output=True, text=True)
    out = r.stdout
    try:
        res = json.loads(out[:out.rindex('}') + 1])
    except Exception:
        res = {'raw': out[-2000:], 'err': r.stderr[-2000:]}
    if rnd in (5, 6, 7, 8) and os.path.exists('/tmp/dev%d_first.log' % rnd):
        for ln in open('/tmp/dev%d_first.log' % rnd):
            w = ln.split()
            if len(w) == 4 and w[0] == pid and w[1] == 'patch%d' % i:
                meta['detected_at_first_try'] = [pid] if not w[3].endswith('=0') else []
                meta['first_try_note'] = 'measured with the checks as they stood before round %d (commit %s), seed 0, in a scratch copy' % (rnd, {5: '003b511', 6: 'b8e99b1', 7: 'cee337a', 8: 'b3c4562'}[rnd])
    meta['what_i_ran'] = 'tools/try_seed.py %s %s' % (os.path.relpath(d, V), ' '.join(sys.argv[2:]))
    meta['confirmation'] = {k: res.get(k) for k in ('applies', 'tests_pass_with_change', 'demo_with_change_exit', 'demo_without_change_exit', 'confirmed')}
    meta['checks'] = res.get('checks')
    meta['detected_by'] = res.get('detected_by')
    json.dump(meta, open(os.path.join(d, 'meta.json'), 'w'), indent=1)
    print(pid, i, 'confirmed=%s' % meta['confirmation'].get('confirmed'), 'detected_by=%s' % meta.get('detected_by'), (res.get('raw') or '')[:300], (res.get('err') or '')[:500])
