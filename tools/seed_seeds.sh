#!/bin/bash
# tools/seed_seeds.sh <seeded dir> <Cxx> [seeds...] : apply the seeded patch to /repo, run the quick check under several VERIF_SEEDs, undo
d=$1; c=$2; shift 2
git -C /repo apply "$(realpath $d)/patch.diff" || exit 3
for s in "$@"; do
  VERIF_SEED=$s ./check $c --no-lean > /tmp/seed_seeds.out 2>&1; echo "seed=$s rc=$? $(grep -c VIOLATION /tmp/seed_seeds.out) violation line(s)"
done
git -C /repo checkout -- .
git -C /repo status --short
