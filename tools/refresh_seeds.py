#!/usr/bin/env python3
"""re-run every kept seeded change against the current checks and record the outcome in its meta.json"""
import glob, json, os, subprocess, sys
V = os.path.dirname(os.path.dirname(os.path.abspath(__file__)))
rows = []
only = [a.split('=', 1)[1] for a in sys.argv[1:] if a.startswith('--only=')]       # e.g. --only=C0?-[78]
pattern = only[0] if only else '*-*'
passthrough = [a for a in sys.argv[1:] if not a.startswith('--only=')]
for d in sorted(glob.glob(os.path.join(V, 'seeded', pattern))):
    mp = os.path.join(d, 'meta.json')
    meta = json.load(open(mp))
    if 'detected_at_first_try' not in meta:
        meta['detected_at_first_try'] = meta.get('detected_by')
    r = subprocess.run([sys.executable, os.path.join(V, 'tools', 'try_seed.py'), d, '--skip-confirm'] + passthrough, capture_output=True, text=True)
    out = r.stdout
    try:
        res = json.loads(out[:out.rindex('}') + 1])
    except Exception:
        res = {}
    meta['detected_by'] = res.get('detected_by')
    meta['checks'] = res.get('checks')
    json.dump(meta, open(mp, 'w'), indent=1)
    rows.append((os.path.basename(d), meta['property'], bool(meta['detected_at_first_try']), bool(meta['detected_by'])))
    print(rows[-1], flush=True)
if not only:
    json.dump(rows, open(os.path.join(V, 'seeded', 'SUMMARY.json'), 'w'), indent=1)
