#!/usr/bin/env python3
"""try_refactor.py <dir with patch.diff, meta.json> [ids…]: a behaviour-preserving rewrite must keep every check silent.
Applies the patch to /repo, runs the repository tests and the quick checks (all, or the given ids), undoes the patch."""
import json, os, subprocess, sys, tempfile
V = os.path.dirname(os.path.dirname(os.path.abspath(__file__)))
d = os.path.abspath(sys.argv[1])
ids = [a for a in sys.argv[2:] if not a.startswith('--')] or [c['property_id'] for c in json.load(open(os.path.join(V, 'MANIFEST.json')))['checks']]
sh = lambda cmd, **kw: subprocess.run(cmd, capture_output=True, text=True, **kw)
assert sh(['git', '-C', '/repo', 'status', '--porcelain']).stdout.strip() == '', '/repo not clean'
r = sh(['git', '-C', '/repo', 'apply', os.path.join(d, 'patch.diff')])
assert r.returncode == 0, r.stderr
res = {}
try:
    t = sh(['/venv/bin/python', '-m', 'pytest', '-q', '-p', 'no:cacheprovider', 'test'], cwd='/repo', env=dict(os.environ, PYTHONDONTWRITEBYTECODE='1'))
    res['tests'] = t.stdout.strip().splitlines()[-1] if t.stdout else t.stderr[-200:]
    for p in ids:
        for seed in ('0', '7'):
            r = sh([os.path.join(V, 'check'), p, '--no-lean'], cwd=V, timeout=3600,
                   env=dict(os.environ, VERIF_EVIDENCE_DIR=tempfile.gettempdir(), VERIF_SEED=seed))
            if r.returncode != 0:
                res.setdefault('alarms', []).append(dict(id=p, seed=seed, rc=r.returncode, out=(r.stdout + r.stderr)[-1500:]))
finally:
    sh(['git', '-C', '/repo', 'checkout', '--', '.'])
res['silent'] = 'alarms' not in res
meta = json.load(open(os.path.join(d, 'meta.json')))
meta['what_i_ran'] = 'tools/try_refactor.py (quick checks, seeds 0 and 7): ' + ' '.join(ids)
meta['result'] = dict(tests=res.get('tests'), silent=res['silent'], alarms=[(a['id'], a['seed'], a['rc'], a['out'][-800:]) for a in res.get('alarms', [])])
json.dump(meta, open(os.path.join(d, 'meta.json'), 'w'), indent=1)
print(json.dumps(res, indent=1)[:3000])
print('SILENT' if res['silent'] else 'ALARM', os.path.basename(d))
