#!/usr/bin/env python3
"""
try_seed.py <seed dir> [<property id>] [--all] [--thorough]

<seed dir> contains patch.diff, demo.py, meta.json (as kept under /verif/seeded/<id>/).
 1. confirms the seeded change: applies it in a scratch worktree of /repo, runs the repository's own tests (must pass), runs
    the demonstration with the change (must fail) and without it (must pass);
 2. applies the patch to /repo itself, runs the quick check of the property (or all checks with --all), undoes the patch.
Prints one line per check: DETECTED / MISSED.  Never leaves /repo modified.
"""
import json
import os
import shutil
import subprocess
import sys
import tempfile

VERIF = os.path.dirname(os.path.dirname(os.path.abspath(__file__)))
PY = '/venv/bin/python'


def sh(cmd, **kw):
    return subprocess.run(cmd, capture_output=True, text=True, **kw)


def main():
    args = [a for a in sys.argv[1:] if not a.startswith('--')]
    d = os.path.abspath(args[0])
    meta = json.load(open(os.path.join(d, 'meta.json')))
    pid = args[1] if len(args) > 1 else meta['property']
    patch = os.path.join(d, 'patch.diff')
    demo = os.path.join(d, 'demo.py')
    tier = 'thorough' if '--thorough' in sys.argv else 'quick'
    out = {'seed': d, 'property': pid}
    if '--skip-confirm' not in sys.argv:
        wt = tempfile.mkdtemp(prefix='seedwt_')
        shutil.rmtree(wt)
        try:
            r = sh(['git', '-C', '/repo', 'worktree', 'add', '-q', '--detach', wt, 'HEAD'])
            assert r.returncode == 0, r.stderr
            r = sh(['git', '-C', wt, 'apply', patch])
            out['applies'] = r.returncode == 0
            if not out['applies']:
                print(json.dumps(out), r.stderr)
                return 1
            env = dict(os.environ, PYTHONPATH=wt, PYTHONDONTWRITEBYTECODE='1')
            r = sh([PY, '-m', 'pytest', '-q', '-p', 'no:cacheprovider', 'test'], cwd=wt, env=env, timeout=900)
            out['tests_pass_with_change'] = (r.returncode == 0)
            out['tests_tail'] = r.stdout.strip().splitlines()[-1:] if r.stdout else []
            r = sh([PY, demo], env=env, timeout=300, cwd=tempfile.gettempdir())
            out['demo_with_change_exit'] = r.returncode
            r = sh([PY, demo], env=dict(os.environ, PYTHONPATH='/repo', PYTHONDONTWRITEBYTECODE='1'), timeout=300, cwd=tempfile.gettempdir())
            out['demo_without_change_exit'] = r.returncode
        finally:
            sh(['git', '-C', '/repo', 'worktree', 'remove', '--force', wt])
            sh(['git', '-C', '/repo', 'worktree', 'prune'])
        out['confirmed'] = bool(out.get('tests_pass_with_change') and out['demo_with_change_exit'] != 0 and out['demo_without_change_exit'] == 0)
    # run the checks against /repo with the patch applied
    st = sh(['git', '-C', '/repo', 'status', '--porcelain'])
    assert st.stdout.strip() == '', '/repo is not clean: ' + st.stdout
    pids = [pid]
    if '--all' in sys.argv:
        pids = [c['property_id'] for c in json.load(open(os.path.join(VERIF, 'MANIFEST.json')))['checks']]
    r = sh(['git', '-C', '/repo', 'apply', patch])
    assert r.returncode == 0, r.stderr
    res = {}
    # --seeds=0,1 : run every check under each VERIF_SEED; "detected" then means detected under EVERY seed
    seeds = ['0']
    for a in sys.argv:
        if a.startswith('--seeds='):
            seeds = a.split('=', 1)[1].split(',')
    try:
        for p in pids:
            per = {}
            for sd in seeds:
                r = sh([os.path.join(VERIF, 'check'), p, '--tier', tier] + (['--no-lean'] if '--no-lean' in sys.argv else []),
                       cwd=VERIF, timeout=3600, env=dict(os.environ, VERIF_EVIDENCE_DIR=tempfile.gettempdir(), VERIF_SEED=sd))
                viol = [l for l in r.stdout.splitlines() if l.startswith('VIOLATION')]
                per[sd] = dict(rc=r.returncode, violation_lines=viol[:3])
            res[p] = dict(rc=max(v['rc'] for v in per.values()), violation_lines=per[seeds[0]]['violation_lines'],
                          detected_under_seeds=[sd for sd, v in per.items() if v['rc'] == 1 and v['violation_lines']], seeds=seeds)
    finally:
        sh(['git', '-C', '/repo', 'checkout', '--', '.'])
    out['checks'] = res
    out['detected_by'] = [p for p, v in res.items() if v['detected_under_seeds'] == seeds]
    print(json.dumps(out, indent=1))
    print('DETECTED' if pid in out['detected_by'] else 'MISSED', pid, os.path.basename(d))
    return 0


if __name__ == '__main__':
    sys.exit(main())
